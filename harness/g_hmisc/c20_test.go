package g_hmisc

import (
	"bytes"
	"context"
	"errors"
	"fmt"
	"net/http"
	"net/http/httptest"
	"regexp"
	"strings"
	"sync"
	"sync/atomic"
	"testing"
	"time"

	"github.com/Query-farm/vgi-rpc-go/vgirpc"
	"github.com/apache/arrow-go/v18/arrow"
	"pgregory.net/rapid"

	"verifharness/lib"
)

// C20 — every HTTP response carries consistent correlation and capability headers.

type c20Config struct {
	Prefix        string      `json:"prefix"`
	Cors          string      `json:"cors,omitempty"`
	CorsMaxAge    int         `json:"cors_max_age,omitempty"` // 0: leave default, -1: SetCorsMaxAge(0), else seconds
	MaxReq        int64       `json:"max_request,omitempty"`
	MaxResp       int64       `json:"max_response,omitempty"`
	MaxExtResp    int64       `json:"max_ext_response,omitempty"`
	Upload        bool        `json:"upload,omitempty"`
	MaxUpload     int64       `json:"max_upload,omitempty"`
	External      bool        `json:"external,omitempty"`
	ProofRequired bool        `json:"proof_required,omitempty"`
	ProxyHeaders  []string    `json:"proxy_headers,omitempty"`
	Introspect    bool        `json:"introspect,omitempty"`
	Sticky        bool        `json:"sticky,omitempty"`
	StickyTTL     int         `json:"sticky_ttl,omitempty"`
	Echo          [][2]string `json:"echo,omitempty"`
	Level         int         `json:"level"`
	Auth          string      `json:"auth"` // none | accept | reject | reject_reason | reject_perm | unavailable | error
	OAuthMeta     bool        `json:"oauth_meta,omitempty"`
	NoLanding     bool        `json:"no_landing,omitempty"`
	NoDescribe    bool        `json:"no_describe,omitempty"`
	NoNotFound    bool        `json:"no_notfound,omitempty"`
	HookFails     int         `json:"hook_fails"` // -1: no serve-start hook; k>=0: the hook fails its first k invocations
	DispatchHook  bool        `json:"dispatch_hook,omitempty"`
}

type c20Req struct {
	Method      string  `json:"method"`
	Path        string  `json:"path"`         // template; {p} is replaced by the prefix
	ContentType string  `json:"content_type"` // arrow | wrong | absent
	Body        string  `json:"body"`         // none | valid | oversize | garbage
	Coding      string  `json:"coding,omitempty"`
	RequestID   *string `json:"request_id"` // nil: header absent
	Accept      string  `json:"accept,omitempty"`
	ACRH        string  `json:"acrh,omitempty"` // Access-Control-Request-Headers
	SessAccept  bool    `json:"session_accept,omitempty"`
	UseSession  bool    `json:"use_session,omitempty"` // send the VGI-Session token minted earlier in the case
}

type c20Case struct {
	Cfg  c20Config `json:"cfg"`
	Reqs []c20Req  `json:"reqs"`
	Conc *c20Phase `json:"conc,omitempty"` // responses assembled while another response is being assembled
}

// c20Phase is the overlapping part of a case. "Every HTTP response" and "all
// configurations" do not stop at one response at a time: a process may mount
// several differently configured HttpServers, and each of them answers
// requests concurrently. Side A's requests are answered while side B's are;
// every response of either side is judged exactly like a sequential one,
// against the configuration of the server that produced it.
//
//	gated: A's request is served through a ResponseWriter owned by the harness;
//	       at chosen ResponseWriter calls (Header/WriteHeader/Write) A is held
//	       while one request of B is answered start to end, then released. The
//	       schedule is part of the case, so a failing case replays.
//	free:  Workers goroutines per side run their request lists Rounds times
//	       with nothing between them but a start barrier (the oracle stays
//	       exact per response; which interleavings occur is up to the scheduler).
type c20Phase struct {
	Other   *c20Config `json:"other,omitempty"` // configuration of side B's server; nil: B is the same server as A
	Mode    string     `json:"mode"`            // gated | free
	A       []c20Req   `json:"a"`
	B       []c20Req   `json:"b"` // used cyclically
	From    int        `json:"from,omitempty"`    // gated: first ResponseWriter call of A that is a gate
	Every   int        `json:"every,omitempty"`   // gated: every k-th call after that
	Max     int        `json:"max,omitempty"`     // gated: at most this many gates per request of A
	Workers int        `json:"workers,omitempty"` // free
	Rounds  int        `json:"rounds,omitempty"`  // free
}

// ---- generator ----

var c20Paths = []string{
	"{p}/u_str", "{p}/u_str", "{p}/u_str", "{p}/u_str_err", "{p}/no_such_method", "{p}/s_prod/init", "{p}/s_prod", "{p}/s_exch/exchange", "{p}/u_str/init",
	"{p}/__describe__", "{p}/__upload_url__/init", "{p}/__introspect_token__", "{p}/__session__", "{p}/c20_open", "{p}/c20_open",
	"/health", "{p}/health", "{p}/health/deep", "{p}", "{p}/", "{p}/describe", "/.well-known/oauth-protected-resource{p}",
	"{p}/a/b/c/d", "/u_str", "/zzz", "{p}//u_str", "{p}/../u_str", "{p}/u_str/", "/", "*",
}

var c20Methods = []string{"POST", "POST", "POST", "POST", "GET", "GET", "OPTIONS", "OPTIONS", "DELETE", "PUT", "HEAD", "PATCH"}

func genRequestID(t *rapid.T) *string {
	pad := func(s string) string {
		ws := []string{"", " ", "\t", "  ", " \t "}
		return ws[rapid.IntRange(0, 4).Draw(t, "rid-l")] + s + ws[rapid.IntRange(0, 4).Draw(t, "rid-r")]
	}
	body := func(n int) string {
		// printable ASCII without leading/trailing blanks
		const alpha = "abcdefghijklmnopqrstuvwxyzABCDEFGHIJKLMNOPQRSTUVWXYZ0123456789-_.:/=+"
		b := make([]byte, n)
		for i := range b {
			b[i] = alpha[rapid.IntRange(0, len(alpha)-1).Draw(t, "rid-c")]
		}
		return string(b)
	}
	switch rapid.IntRange(0, 11).Draw(t, "rid-kind") {
	case 0, 1:
		return nil
	case 2:
		return strp("")
	case 3:
		return strp(pad(""))
	case 4:
		return strp(body(1))
	case 5:
		return strp(pad(body(128)))
	case 6:
		return strp(pad(body(129)))
	case 7:
		return strp(pad(body(rapid.IntRange(130, 400).Draw(t, "rid-long"))))
	case 8:
		// multi-byte: the bound is in bytes
		units := []string{"é", "日", "🙂", "ü"}
		u := units[rapid.IntRange(0, 3).Draw(t, "rid-u")]
		target := rapid.IntRange(120, 136).Draw(t, "rid-bytes")
		s := strings.Repeat(u, target/len(u))
		s += body(target - len(s))
		return strp(pad(s))
	case 9:
		return strp(pad("req " + body(5) + "\tmid " + body(3))) // interior blanks survive
	default:
		return strp(pad(body(rapid.IntRange(2, 127).Draw(t, "rid-n"))))
	}
}

func genC20Config(t *rapid.T) c20Config {
	var cfg c20Config
	g := &cfg
	g.Prefix = []string{"", "", "/vgi", "/a/b"}[rapid.IntRange(0, 3).Draw(t, "prefix")]
	g.Cors = []string{"", "*", "*", "https://app.example"}[rapid.IntRange(0, 3).Draw(t, "cors")]
	g.CorsMaxAge = []int{0, 0, -1, 60}[rapid.IntRange(0, 3).Draw(t, "corsage")]
	pick := func(label string, vals ...int64) int64 { return vals[rapid.IntRange(0, len(vals)-1).Draw(t, label)] }
	g.MaxReq = pick("maxreq", 0, 0, 700, 1<<20)
	g.MaxResp = pick("maxresp", 0, 0, 400, 1<<20)
	g.MaxExtResp = pick("maxext", 0, 0, 1<<20)
	g.Upload = rapid.Bool().Draw(t, "upload")
	g.MaxUpload = pick("maxupload", 0, 1<<30)
	g.External = rapid.Bool().Draw(t, "external")
	g.ProofRequired = rapid.IntRange(0, 2).Draw(t, "proof") == 0
	if rapid.IntRange(0, 3).Draw(t, "proxyhdrs") == 0 {
		g.ProxyHeaders = []string{"X-Forwarded-Client-Cert"}
	}
	g.Introspect = rapid.IntRange(0, 2).Draw(t, "introspect") == 0
	g.Sticky = rapid.Bool().Draw(t, "sticky")
	if g.Sticky {
		g.StickyTTL = []int{0, 30, 300}[rapid.IntRange(0, 2).Draw(t, "stickyttl")]
		names := []string{"fly-force-instance-id", "X-Route", "x-ROUTE-b", "k"}
		n := rapid.IntRange(0, 2).Draw(t, "necho")
		for i := 0; i < n; i++ {
			g.Echo = append(g.Echo, [2]string{names[(i+rapid.IntRange(0, 3).Draw(t, "echoname"))%len(names)], fmt.Sprintf("v%d", i)})
		}
		if len(g.Echo) == 2 && strings.EqualFold(g.Echo[0][0], g.Echo[1][0]) {
			g.Echo = g.Echo[:1]
		}
	}
	g.Level = []int{0, 1, 1, 2}[rapid.IntRange(0, 3).Draw(t, "level")] // the slower levels clear MiBs of encoder tables per response; C17 covers them
	g.Auth = []string{"none", "none", "accept", "accept", "reject", "reject_reason", "reject_perm", "unavailable", "error"}[rapid.IntRange(0, 8).Draw(t, "auth")]
	g.OAuthMeta = g.Auth != "none" && rapid.Bool().Draw(t, "oauthmeta")
	g.NoLanding = rapid.IntRange(0, 3).Draw(t, "nolanding") == 0
	g.NoDescribe = rapid.IntRange(0, 3).Draw(t, "nodescribe") == 0
	g.NoNotFound = rapid.IntRange(0, 3).Draw(t, "nonotfound") == 0
	g.HookFails = []int{-1, -1, 0, 0, 1, 2}[rapid.IntRange(0, 5).Draw(t, "hookfails")]
	g.DispatchHook = rapid.IntRange(0, 2).Draw(t, "dispatchhook") == 0
	return cfg
}

func genC20Req(t *rapid.T, i int) c20Req {
	{
		r := c20Req{
			Method:      c20Methods[rapid.IntRange(0, len(c20Methods)-1).Draw(t, "method")],
			Path:        c20Paths[rapid.IntRange(0, len(c20Paths)-1).Draw(t, "path")],
			ContentType: []string{"arrow", "arrow", "arrow", "wrong", "absent"}[rapid.IntRange(0, 4).Draw(t, "ct")],
			Body:        []string{"valid", "valid", "valid", "none", "oversize", "garbage"}[rapid.IntRange(0, 5).Draw(t, "body")],
			Coding:      []string{"", "", "", "br", "zstd", "gzip"}[rapid.IntRange(0, 5).Draw(t, "coding")],
			RequestID:   genRequestID(t),
			Accept:      []string{"", "", "zstd", "gzip, zstd"}[rapid.IntRange(0, 3).Draw(t, "accept")],
			SessAccept:  rapid.Bool().Draw(t, "sessaccept"),
			UseSession:  rapid.IntRange(0, 2).Draw(t, "usesession") == 0,
		}
		if r.Method == "OPTIONS" && rapid.Bool().Draw(t, "acrh") {
			r.ACRH = "content-type, x-custom"
		}
		// a share of well-formed calls, so the success paths (and the session
		// headers) are reached as often as the rejections
		switch rapid.IntRange(0, 9).Draw(t, "wellformed") {
		case 0, 1:
			r.Method, r.ContentType, r.Body, r.Coding = "POST", "arrow", "valid", ""
			r.Path = []string{"{p}/u_str", "{p}/u_str_err", "{p}/s_prod/init", "{p}/__describe__", "{p}/__upload_url__/init", "{p}/c20_open"}[rapid.IntRange(0, 5).Draw(t, "wfpath")]
		case 2:
			r.Method, r.ContentType, r.Body, r.Coding, r.Path, r.SessAccept = "POST", "arrow", "valid", "", "{p}/c20_open", true
		case 3:
			if i > 0 {
				r.Method, r.Path, r.UseSession, r.Body = "DELETE", "{p}/__session__", true, "none"
			}
		}
		return r
	}
}

func genC20(t *rapid.T) c20Case {
	var c c20Case
	c.Cfg = genC20Config(t)
	n := rapid.IntRange(1, 5).Draw(t, "nreqs")
	for i := 0; i < n; i++ {
		c.Reqs = append(c.Reqs, genC20Req(t, i))
	}
	if rapid.IntRange(0, 3).Draw(t, "conc") == 0 {
		c.Conc = genC20Phase(t, &c.Cfg)
	}
	return c
}

func genC20Phase(t *rapid.T, cfg *c20Config) *c20Phase {
	ph := &c20Phase{Mode: []string{"gated", "gated", "gated", "free"}[rapid.IntRange(0, 3).Draw(t, "conc-mode")]}
	// the exposure clause is about CORS-enabled servers: most overlapping cases have it on
	corsOn := func(g *c20Config) {
		if g.Cors == "" && rapid.IntRange(0, 3).Draw(t, "conc-cors") != 0 {
			g.Cors = []string{"*", "https://app.example"}[rapid.IntRange(0, 1).Draw(t, "conc-cors-origin")]
		}
	}
	corsOn(cfg)
	if rapid.IntRange(0, 3).Draw(t, "conc-same") != 0 {
		other := genC20Config(t)
		corsOn(&other)
		ph.Other = &other
	} else if cfg.Sticky && len(cfg.Echo) < 2 && rapid.Bool().Draw(t, "conc-echo") {
		// one server overlapping with itself: give it several echo headers
		cfg.Echo = [][2]string{{"fly-force-instance-id", "v0"}, {"X-Route", "v1"}, {"k", "v2"}}[:rapid.IntRange(2, 3).Draw(t, "conc-necho")]
	}
	na, nb := rapid.IntRange(1, 2).Draw(t, "conc-na"), rapid.IntRange(1, 3).Draw(t, "conc-nb")
	for i := 0; i < na; i++ {
		ph.A = append(ph.A, genC20Req(t, 0))
	}
	for i := 0; i < nb; i++ {
		ph.B = append(ph.B, genC20Req(t, 0))
	}
	if ph.Mode == "gated" {
		ph.From = rapid.IntRange(0, 24).Draw(t, "conc-from")
		if rapid.Bool().Draw(t, "conc-from0") {
			ph.From = 0
		}
		ph.Every = []int{1, 1, 1, 2, 3, 5}[rapid.IntRange(0, 5).Draw(t, "conc-every")]
		ph.Max = []int{1, 2, 8, 48, 48}[rapid.IntRange(0, 4).Draw(t, "conc-max")]
	} else {
		ph.Workers = rapid.IntRange(2, 3).Draw(t, "conc-workers")
		ph.Rounds = rapid.IntRange(4, 24).Draw(t, "conc-rounds")
	}
	return ph
}

// ---- collaborators ----

type c20Uploads struct{}

func (c20Uploads) GenerateUploadURL(*arrow.Schema) (vgirpc.UploadURL, error) {
	return vgirpc.UploadURL{UploadURL: "https://store.example/up/1", DownloadURL: "https://store.example/dl/1", ExpiresAt: time.Unix(2000000000, 0).UTC()}, nil
}

type c20Storage struct{}

func (c20Storage) Upload([]byte, *arrow.Schema, string) (string, error) {
	return "https://store.example/obj/1", nil
}

type c20Hook struct{}

func (c20Hook) OnDispatchStart(ctx context.Context, _ vgirpc.DispatchInfo) (context.Context, vgirpc.HookToken) {
	return ctx, nil
}
func (c20Hook) OnDispatchEnd(context.Context, vgirpc.HookToken, vgirpc.DispatchInfo, *vgirpc.CallStatistics, error) {
}

type c20Session struct{ N int }

func buildC20(g c20Config) (*vgirpc.HttpServer, *atomic.Int64) {
	srv := newScriptedServer()
	vgirpc.Unary(srv, "u_str_err", func(_ context.Context, _ *vgirpc.CallContext, _ lib.ScriptParams) (string, error) {
		return "", &vgirpc.RpcError{Type: "ValueError", Message: "always fails"}
	})
	vgirpc.Unary(srv, "c20_open", func(_ context.Context, cc *vgirpc.CallContext, _ lib.ScriptParams) (string, error) {
		if err := cc.OpenSession(&c20Session{N: 1}, 0); err != nil {
			return "", err
		}
		return "opened", nil
	})
	hookCalls := new(atomic.Int64)
	if g.HookFails >= 0 {
		srv.SetServeStartHook(func(vgirpc.TransportKind, map[string]bool) error {
			if hookCalls.Add(1) <= int64(g.HookFails) {
				return errors.New("serve-start hook not ready")
			}
			return nil
		})
	}
	if g.External {
		srv.SetExternalLocation(vgirpc.DefaultExternalLocationConfig(c20Storage{}))
	}
	if g.DispatchHook {
		srv.SetDispatchHook(c20Hook{})
	}
	h, err := vgirpc.NewHttpServerWithKey(srv, bytes.Repeat([]byte{5}, 32))
	if err != nil {
		panic(err)
	}
	// setters that rebuild the route table first
	if g.Prefix != "" {
		h.SetPrefix(g.Prefix)
	}
	if g.Upload {
		h.SetUploadURLProvider(c20Uploads{})
	}
	if g.MaxUpload > 0 {
		h.SetMaxUploadBytes(g.MaxUpload)
	}
	if g.Cors != "" {
		h.SetCorsOrigins(g.Cors)
	}
	switch {
	case g.CorsMaxAge < 0:
		h.SetCorsMaxAge(0)
	case g.CorsMaxAge > 0:
		h.SetCorsMaxAge(g.CorsMaxAge)
	}
	if g.MaxReq > 0 {
		h.SetMaxRequestBytes(g.MaxReq)
	}
	if g.MaxResp > 0 {
		h.SetMaxResponseBytes(g.MaxResp)
	}
	if g.MaxExtResp > 0 {
		h.SetMaxExternalizedResponseBytes(g.MaxExtResp)
	}
	if g.ProofRequired {
		h.SetProxyProofRequired(true)
	}
	if len(g.ProxyHeaders) > 0 {
		h.SetProxyAuthHeaders(g.ProxyHeaders...)
	}
	if err := h.SetCompressionLevel(g.Level); err != nil {
		panic(err)
	}
	switch g.Auth {
	case "accept":
		h.SetAuthenticate(func(*http.Request) (*vgirpc.AuthContext, error) {
			return &vgirpc.AuthContext{Domain: "bearer", Authenticated: true, Principal: "alice"}, nil
		})
	case "reject":
		h.SetAuthenticate(func(*http.Request) (*vgirpc.AuthContext, error) {
			return nil, &vgirpc.RpcError{Type: "ValueError", Message: "bad token"}
		})
	case "reject_reason":
		h.SetAuthenticate(func(*http.Request) (*vgirpc.AuthContext, error) {
			return nil, vgirpc.NewAuthFailure(vgirpc.AuthReasonExpiredCredential, "expired")
		})
	case "reject_perm":
		h.SetAuthenticate(func(*http.Request) (*vgirpc.AuthContext, error) {
			return nil, &vgirpc.RpcError{Type: "PermissionError", Message: "not allowed"}
		})
	case "unavailable":
		h.SetAuthenticate(func(*http.Request) (*vgirpc.AuthContext, error) {
			return nil, vgirpc.NewAuthUnavailable("idp down")
		})
	case "error":
		h.SetAuthenticate(func(*http.Request) (*vgirpc.AuthContext, error) {
			return nil, errors.New("authenticator exploded")
		})
	}
	if g.OAuthMeta {
		if err := h.SetOAuthResourceMetadata(&vgirpc.OAuthResourceMetadata{
			Resource:             "https://api.example.com" + g.Prefix,
			AuthorizationServers: []string{"https://idp.example.com"},
			ScopesSupported:      []string{"openid"},
		}); err != nil {
			panic(err)
		}
	}
	if g.Introspect {
		if err := h.EnableTokenIntrospection(vgirpc.TokenIntrospectionConfig{
			Resolver:   func(string) (vgirpc.TokenIdentity, bool, error) { return vgirpc.TokenIdentity{}, false, nil },
			Principals: []string{"alice"},
		}); err != nil {
			panic(err)
		}
	}
	if g.Sticky {
		h.EnableSticky(time.Duration(g.StickyTTL) * time.Second)
		if len(g.Echo) > 0 {
			m := map[string]string{}
			for _, kv := range g.Echo {
				m[kv[0]] = kv[1]
			}
			h.SetStickyEchoHeaders(m)
		}
	}
	h.SetEnableLandingPage(!g.NoLanding)
	h.SetEnableDescribePage(!g.NoDescribe)
	h.SetEnableNotFoundPage(!g.NoNotFound)
	return h, hookCalls
}

var hex16 = regexp.MustCompile(`^[0-9a-f]{16}$`)

func trimOWS(s string) string { return strings.Trim(s, " \t") }

func headerNames(h http.Header) []string {
	var out []string
	for k := range h {
		out = append(out, k)
	}
	return out
}

func containsFold(list []string, s string) bool {
	for _, x := range list {
		if strings.EqualFold(x, s) {
			return true
		}
	}
	return false
}

// c20Server is one configured server of a case together with what the
// harness's own table says its configuration can emit.
type c20Server struct {
	g         c20Config
	h         *vgirpc.HttpServer
	hookCalls *atomic.Int64
	canEmit   []string
	features  int
}

// c20CanEmit lists what a configuration can emit, from the header documentation.
func c20CanEmit(g c20Config) []string {
	canEmit := []string{"X-Request-ID", "VGI-Supported-Encodings", "VGI-Externalization-Enabled", "X-VGI-RPC-Error"}
	if g.Level > 0 {
		canEmit = append(canEmit, "X-VGI-Content-Encoding")
	}
	if g.Auth != "none" {
		canEmit = append(canEmit, "VGI-Auth-Reason")
		if g.OAuthMeta {
			canEmit = append(canEmit, "WWW-Authenticate")
		}
		if g.ProofRequired || len(g.ProxyHeaders) > 0 {
			canEmit = append(canEmit, "VGI-Auth-Proxy-Required")
		}
	}
	if g.MaxReq > 0 {
		canEmit = append(canEmit, "VGI-Max-Request-Bytes")
	}
	if g.MaxResp > 0 {
		canEmit = append(canEmit, "VGI-Max-Response-Bytes")
	}
	if g.MaxExtResp > 0 {
		canEmit = append(canEmit, "VGI-Max-Externalized-Response-Bytes")
	}
	if g.Upload {
		canEmit = append(canEmit, "VGI-Upload-URL-Support")
		if g.MaxUpload > 0 {
			canEmit = append(canEmit, "VGI-Max-Upload-Bytes")
		}
	}
	if g.ProofRequired {
		canEmit = append(canEmit, "VGI-Proxy-Proof-Required")
	}
	if g.Introspect {
		canEmit = append(canEmit, "VGI-Token-Introspection")
	}
	if g.Sticky {
		canEmit = append(canEmit, "VGI-Sticky-Enabled", "VGI-Sticky-Default-TTL", "VGI-Session", "VGI-Session-Close")
		if len(g.Echo) > 0 {
			canEmit = append(canEmit, "VGI-Sticky-Echo-Headers")
			for _, kv := range g.Echo {
				canEmit = append(canEmit, "VGI-Echo-"+kv[0])
			}
		}
	}
	return canEmit
}

func newC20Server(g c20Config) *c20Server {
	s := &c20Server{g: g, canEmit: c20CanEmit(g)}
	s.h, s.hookCalls = buildC20(g)
	for _, on := range []bool{g.MaxReq > 0, g.MaxResp > 0, g.MaxExtResp > 0, g.Upload, g.External, g.ProofRequired, len(g.ProxyHeaders) > 0, g.Introspect, g.Sticky, len(g.Echo) > 0, g.OAuthMeta} {
		if on {
			s.features++
		}
	}
	return s
}

func (s *c20Server) shutdown() {
	if d := s.h.DrainHandle(); d != nil {
		d.Shutdown()
	}
}

// c20Render turns a request record into the concrete request for a server.
func c20Render(g c20Config, r c20Req, sessionToken string) (path string, hdr hdrList, body []byte) {
	path = strings.ReplaceAll(r.Path, "{p}", g.Prefix)
	if path == "" || (path == "*" && r.Method != "OPTIONS") {
		path = "/"
	}
	switch r.ContentType {
	case "arrow":
		hdr = append(hdr, [2]string{"Content-Type", lib.ArrowCT})
	case "wrong":
		hdr = append(hdr, [2]string{"Content-Type", "application/json"})
	}
	method := "u_str"
	if seg := strings.Split(strings.TrimPrefix(path, g.Prefix), "/"); len(seg) > 1 && seg[1] != "" {
		method = seg[1]
	}
	script := lib.UnaryScript{ID: "c20", Outcome: "value", Value: "ok"}
	switch r.Body {
	case "valid":
		if strings.HasPrefix(method, "s_") {
			ss := lib.StreamScript{ID: "c20", InitOutcome: "ok", Turns: []lib.TurnSpec{{Act: "emit"}, {Act: "finish"}}}
			body = lib.BuildRequest(method, lib.ScriptBatch(ss.JSON()), lib.ReqOpts{})
		} else if method == "__describe__" {
			body = lib.BuildRequest(method, emptyOneRow(), lib.ReqOpts{})
		} else if method == "__upload_url__" {
			body = lib.BuildRequest(method, lib.Int64Batch(vgirpc.UploadURLParamsSchema, 1), lib.ReqOpts{})
		} else {
			body = lib.BuildRequest(method, lib.ScriptBatch(script.JSON()), lib.ReqOpts{})
		}
	case "oversize":
		script.Value = strings.Repeat("x", 2000)
		body = lib.BuildRequest(method, lib.ScriptBatch(script.JSON()), lib.ReqOpts{})
	case "garbage":
		// unparsable, but without a huge declared message length (arrow-go
		// allocates declared lengths up front: recorded finding C01/oom-declared-length)
		valid := lib.BuildRequest(method, lib.ScriptBatch(script.JSON()), lib.ReqOpts{})
		body = valid[:len(valid)/2]
	}
	if r.Method == "GET" || r.Method == "HEAD" || r.Method == "OPTIONS" {
		body = nil
	}
	if r.Coding != "" && body != nil {
		hdr = append(hdr, [2]string{"Content-Encoding", r.Coding}) // body is not actually encoded for zstd/gzip: a bad-coding request
	}
	if r.RequestID != nil {
		hdr = append(hdr, [2]string{"X-Request-ID", *r.RequestID})
	}
	if r.Accept != "" {
		hdr = append(hdr, [2]string{"X-VGI-Accept-Encoding", r.Accept})
	}
	if r.ACRH != "" {
		hdr = append(hdr, [2]string{"Access-Control-Request-Headers", r.ACRH}, [2]string{"Origin", "https://app.example"})
	}
	if r.SessAccept {
		hdr = append(hdr, [2]string{"VGI-Session-Accept", "true"})
	}
	if r.UseSession && sessionToken != "" {
		hdr = append(hdr, [2]string{"VGI-Session", sessionToken})
	}
	return path, hdr, body
}

// c20Judge applies the three clauses to one response of server s. hookOK says
// that the serve-start hook had succeeded by the time the response was made.
// minted collects the ids minted within the case (nil: freshness within the
// case is not judged for this response).
func c20Judge(out *lib.Outcome, s *c20Server, what string, r c20Req, path string, res httpResult, hookOK bool, minted map[string]string) {
	g := s.g
	desc := fmt.Sprintf("%s %s %s (ct=%s body=%s coding=%q rid=%s) -> %d; cfg prefix=%q cors=%q auth=%s hook_fails=%d", what, r.Method, path, r.ContentType, r.Body, r.Coding, showp(r.RequestID), res.Status, g.Prefix, g.Cors, g.Auth, g.HookFails)
	if res.Panic != "" {
		out.Violate("C20/panic", "%s: panic %s", desc, lib.Short(res.Panic, 300))
		return
	}
	out.Label(fmt.Sprintf("status:%d", res.Status), "method:"+r.Method)

	// (1) correlation id
	ids := res.Header.Values("X-Request-ID")
	wantEcho := ""
	if r.RequestID != nil {
		if tr := trimOWS(*r.RequestID); len(tr) >= 1 && len(tr) <= 128 {
			wantEcho = tr
		}
	}
	stage := "after-hook"
	if !hookOK {
		stage = "hook-failing"
		out.Label("hook-failing-response")
	}
	switch {
	case len(ids) != 1:
		out.Violate(lib.Keyf("C20", "request-id-missing", stage), "%s: X-Request-ID present %d times", desc, len(ids))
	case wantEcho != "":
		out.Label("rid:echo")
		if ids[0] != wantEcho {
			out.Violate("C20/request-id-not-echoed", "%s: X-Request-ID %q, want the caller's trimmed id %q", desc, ids[0], wantEcho)
		}
	default:
		out.Label("rid:minted")
		if r.RequestID != nil && len(trimOWS(*r.RequestID)) > 128 {
			out.Label("rid:oversize")
		}
		if !hex16.MatchString(ids[0]) {
			out.Violate("C20/request-id-not-fresh-hex", "%s: X-Request-ID %q is not 16 lowercase hex characters", desc, ids[0])
		} else if minted != nil {
			if prev, dup := minted[ids[0]]; dup {
				out.Violate("C20/request-id-reused", "%s: minted id %q was already used for %s", desc, ids[0], prev)
			}
			minted[ids[0]] = what
		}
	}
	if !hookOK {
		return
	}

	// (2) capability headers on every response after the hook succeeded
	if v := res.Header.Values("VGI-Supported-Encodings"); len(v) != 1 {
		out.Violate("C20/supported-encodings-missing", "%s: VGI-Supported-Encodings present %d times", desc, len(v))
	}
	ext := res.Header.Values("VGI-Externalization-Enabled")
	wantExt := "false"
	if g.External {
		wantExt = "true"
	}
	if len(ext) != 1 {
		out.Violate("C20/externalization-header-missing", "%s: VGI-Externalization-Enabled present %d times", desc, len(ext))
	} else if ext[0] != wantExt {
		out.Violate("C20/externalization-header-value", "%s: VGI-Externalization-Enabled=%q, external storage configured=%v", desc, ext[0], g.External)
	}

	// (3) CORS exposure
	if g.Cors == "" {
		return
	}
	nonOK := res.Status < 200 || res.Status > 299 || r.Method == "OPTIONS"
	if nonOK && s.features >= 2 {
		out.NonTrivial = true
	}
	aceh := res.Header.Values("Access-Control-Expose-Headers")
	if len(aceh) == 0 {
		out.Violate("C20/expose-headers-missing", "%s: CORS is enabled but the response has no Access-Control-Expose-Headers", desc)
		return
	}
	var exposed []string
	for _, v := range aceh {
		for _, n := range strings.Split(v, ",") {
			if n = strings.TrimSpace(n); n != "" {
				exposed = append(exposed, n)
			}
		}
	}
	for _, name := range headerNames(res.Header) {
		up := strings.ToUpper(name)
		if strings.HasPrefix(up, "VGI-") || strings.HasPrefix(up, "X-VGI-") || up == "WWW-AUTHENTICATE" || up == "X-REQUEST-ID" {
			if !containsFold(exposed, name) {
				key := name
				if strings.HasPrefix(up, "VGI-ECHO-") {
					key = "VGI-Echo-*"
				}
				out.Violate(lib.Keyf("C20", "emitted-header-not-exposed", key), "%s: response header %s is not listed in Access-Control-Expose-Headers (%s)", desc, name, strings.Join(exposed, ", "))
			}
		}
	}
	for _, name := range s.canEmit {
		if !containsFold(exposed, name) {
			key := name
			if strings.HasPrefix(strings.ToUpper(name), "VGI-ECHO-") {
				key = "VGI-Echo-*"
			}
			out.Violate(lib.Keyf("C20", "emittable-header-not-exposed", key), "%s: this configuration can emit %s, which is not listed in Access-Control-Expose-Headers (%s)", desc, name, strings.Join(exposed, ", "))
		}
	}
}

// c20GateWait bounds how long a held request waits for the request answered
// in between. Passing it only lets the held request go on early (the two then
// simply overlap); it is never a verdict.
const c20GateWait = 10 * time.Second

// c20GatedWriter is the harness-owned ResponseWriter of a gated request: at
// the chosen calls it hands control to at() before doing what was asked.
type c20GatedWriter struct {
	rec   *httptest.ResponseRecorder
	calls int
	at    func(call int)
}

func (w *c20GatedWriter) step()                       { n := w.calls; w.calls++; w.at(n) }
func (w *c20GatedWriter) Header() http.Header         { w.step(); return w.rec.Header() }
func (w *c20GatedWriter) WriteHeader(code int)        { w.step(); w.rec.WriteHeader(code) }
func (w *c20GatedWriter) Write(b []byte) (int, error) { w.step(); return w.rec.Write(b) }

type c20Answer struct {
	s    *c20Server
	what string
	r    c20Req
	path string
	res  httpResult
}

// runC20Phase runs the overlapping part of a case and judges every response.
func runC20Phase(out *lib.Outcome, ph *c20Phase, a, b *c20Server, minted map[string]string) {
	out.Label("conc:" + ph.Mode)
	if a == b {
		out.Label("conc:same-server")
		if len(a.g.Echo) >= 2 && a.g.Cors != "" {
			out.Label("conc:same-server-echo-cors")
		}
	} else {
		out.Label("conc:two-servers")
		if a.g.Cors != "" && b.g.Cors != "" && strings.Join(a.canEmit, ",") != strings.Join(b.canEmit, ",") {
			out.Label("conc:two-cors-servers-differ")
		}
	}
	// the serve-start hook has to have succeeded on both sides: the phase is
	// about complete responses (the failing-hook responses are judged in the
	// sequential part)
	for _, s := range []*c20Server{a, b} {
		for k := 0; s.g.HookFails >= 0 && s.hookCalls.Load() <= int64(s.g.HookFails) && k < 4; k++ {
			doRequest(s.h, "GET", s.g.Prefix+"/health", nil, nil, false)
		}
	}
	var (
		mu      sync.Mutex
		answers []c20Answer
		wg      sync.WaitGroup
	)
	serve := func(s *c20Server, what string, r c20Req, wrap func(*httptest.ResponseRecorder) http.ResponseWriter) {
		r.UseSession = false
		path, hdr, body := c20Render(s.g, r, "")
		res := doRequestVia(s.h, r.Method, path, hdr, body, true, wrap)
		mu.Lock()
		answers = append(answers, c20Answer{s, what, r, path, res})
		mu.Unlock()
	}
	switch ph.Mode {
	case "gated":
		every := max(ph.Every, 1)
		nb := 0
		for i, ra := range ph.A {
			gates := 0
			wrap := func(rec *httptest.ResponseRecorder) http.ResponseWriter {
				return &c20GatedWriter{rec: rec, at: func(call int) {
					if call < ph.From || (call-ph.From)%every != 0 || gates >= ph.Max || len(ph.B) == 0 {
						return
					}
					gates++
					rb := ph.B[nb%len(ph.B)]
					what := fmt.Sprintf("side B request #%d (answered while side A request #%d was held at its ResponseWriter call %d)", nb, i, call)
					nb++
					done := make(chan struct{})
					wg.Add(1)
					go func() {
						defer wg.Done()
						defer close(done)
						serve(b, what, rb, nil)
					}()
					select {
					case <-done:
						out.Label("conc:gate-used")
					case <-time.After(c20GateWait):
						out.Label("conc:gate-wait-passed")
					}
				}}
			}
			serve(a, fmt.Sprintf("side A request #%d (held at ResponseWriter calls %d+%dk, at most %d times)", i, ph.From, every, ph.Max), ra, wrap)
		}
		wg.Wait()
	case "free":
		start := make(chan struct{})
		for side, s := range []*c20Server{a, b} {
			list := ph.A
			if side == 1 {
				list = ph.B
			}
			for w := 0; w < ph.Workers; w++ {
				wg.Add(1)
				go func() {
					defer wg.Done()
					<-start
					for round := 0; round < ph.Rounds; round++ {
						for i, r := range list {
							serve(s, fmt.Sprintf("side %c worker %d round %d request #%d (free-running)", 'A'+side, w, round, i), r, nil)
						}
					}
				}()
			}
		}
		close(start)
		wg.Wait()
	}
	for _, an := range answers {
		c20Judge(out, an.s, an.what, an.r, an.path, an.res, true, minted)
		if len(out.Violations) > 0 {
			return
		}
	}
	out.Label(fmt.Sprintf("conc-responses:%d+", min(len(answers)/10*10, 50)))
}

func runC20(c c20Case) (out lib.Outcome) {
	lib.ResetEvents()
	srv := newC20Server(c.Cfg)
	defer srv.shutdown()
	g := c.Cfg

	out.Label(fmt.Sprintf("features:%d", min(srv.features, 6)), "auth:"+g.Auth)
	if g.Cors != "" {
		out.Label("cors")
	}

	minted := map[string]string{}
	sessionToken := ""
	for i, r := range c.Reqs {
		path, hdr, body := c20Render(g, r, sessionToken)
		callsBefore := srv.hookCalls.Load()
		res := doRequest(srv.h, r.Method, path, hdr, body, true)
		if res.Panic == "" {
			if t := res.Header.Get("VGI-Session"); t != "" {
				sessionToken = t
				out.Label("session-opened")
			}
			if res.Header.Get("VGI-Session-Close") != "" {
				out.Label("session-closed")
			}
		}
		hookOK := g.HookFails < 0 || callsBefore >= int64(g.HookFails) // the hook had already succeeded, or succeeds on this request
		c20Judge(&out, srv, fmt.Sprintf("request #%d", i), r, path, res, hookOK, minted)
		if res.Panic != "" {
			return
		}
	}
	if c.Conc != nil && len(out.Violations) == 0 {
		other := srv
		if c.Conc.Other != nil {
			other = newC20Server(*c.Conc.Other)
			defer other.shutdown()
		}
		runC20Phase(&out, c.Conc, srv, other, minted)
	}
	// Freshness does not stop at one server object: a second worker built from
	// the same configuration (same token key — a sibling behind the balancer, or
	// this one after a restart) must not mint the ids this one minted.
	if len(minted) > 0 {
		twin, _ := buildC20(g)
		for k := 0; k < min(len(minted), 8)+2; k++ {
			r := doRequest(twin, "GET", g.Prefix+"/health", nil, nil, false)
			if id := r.Header.Get("X-Request-ID"); hex16.MatchString(id) {
				if prev, dup := minted[id]; dup {
					out.Violate("C20/request-id-reused-across-servers", "a second server with the same configuration minted %q for its request #%d, the id the first server minted for %s", id, k, prev)
					break
				}
			}
		}
		out.Label("rid:twin-server")
	}
	return
}

var propC20 = lib.Prop[c20Case]{
	ID: "C20",
	Rule: "configuration record (prefix in {'', /vgi, /a/b}; CORS off/*/origin, max-age; request/response/externalised caps; upload-URL provider + max upload; external storage; proxy-proof advertisement; proxy auth headers; token introspection; sticky sessions with 0-2 echo headers; compression level; authenticator none/accepting/rejecting (RpcError ValueError/PermissionError, AuthFailure)/unavailable/erroring; OAuth resource metadata; pages on/off; serve-start hook absent/ok/failing 1-2 times; dispatch hook) x 1-5 requests (method in POST/GET/OPTIONS/DELETE/PUT/HEAD/PATCH, 30 path templates over the whole route table and near misses incl. //, .., trailing slash and '*', content type right/wrong/absent, body valid/none/oversize/garbage, bad or unknown Content-Encoding, X-Request-ID absent/empty/blank/1/128/129/long/multi-byte at the 128-byte bound/padded/with interior blanks, session accept and replay of a minted session token); a quarter of the cases continue with an overlapping part: a second server of an independently drawn configuration (or the same server, then preferably with 2-3 sticky echo headers), CORS mostly on on both sides, 1-2 requests of side A and 1-3 of side B, either gated (A is served through a harness-owned ResponseWriter and held at its ResponseWriter calls from+k*every, at most 1-48 times, while one request of B is answered start to end; a 10 s bound on the hold only releases A early) or free-running (2-3 goroutines per side x 4-24 rounds behind a start barrier). " +
		"Oracle: exactly one X-Request-ID = caller's SP/HTAB-trimmed id when 1..128 bytes, else fresh ^[0-9a-f]{16}$ distinct within the case and from the ids a second server of the same configuration (same token key) mints; after the serve-start hook succeeded VGI-Supported-Encodings and VGI-Externalization-Enabled (value = storage configured) are present; under CORS every VGI-*/X-VGI-*/WWW-Authenticate/X-Request-ID header on the response, and every header the configuration can emit (own table from the header documentation), is listed in Access-Control-Expose-Headers; every response of the overlapping part is judged by the same three clauses against the configuration of the server that produced it, and its minted ids join the freshness set. " +
		"Non-trivial: non-2xx or OPTIONS response under CORS with >=2 optional features on.",
	Gen:          genC20,
	Run:          runC20,
	Essential:    []string{"cors", "hook-failing-response", "rid:echo", "rid:minted", "rid:oversize", "status:401", "status:404", "status:413", "status:415", "status:204", "status:500", "status:503", "session-opened", "session-closed", "status:200", "method:OPTIONS",
		"conc:gated", "conc:free", "conc:gate-used", "conc:two-cors-servers-differ", "conc:same-server", "conc:same-server-echo-cors"},
	EssentialMin: 400,
	Assumptions: []string{
		"'trimmed' means leading/trailing SP and HTAB (the only padding an HTTP peer can deliver)",
		"responses produced while the serve-start hook is still failing are only required to carry X-Request-ID",
	},
}

func TestC20(t *testing.T) { lib.Check(t, propC20) }
