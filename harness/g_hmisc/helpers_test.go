package g_hmisc

import (
	"bytes"
	"compress/gzip"
	"fmt"
	"io"
	"net/http"
	"net/http/httptest"
	"os"
	"strings"

	"github.com/Query-farm/vgi-rpc-go/vgirpc"
	"github.com/apache/arrow-go/v18/arrow"
	"github.com/apache/arrow-go/v18/arrow/array"
	"github.com/klauspost/compress/zstd"

	"verifharness/lib"
)

// Shared helpers of the g_hmisc group (C17, C18, C20): request driver with an
// ordered header list and a counting body, reference decoders, and the
// reference Accept-Encoding tokeniser / negotiation written from the doc
// comments of vgirpc/http_compression.go (not copied from the code).

// hdrList is an ordered header list (JSON-serialisable, no map order).
type hdrList [][2]string

// countingBody counts the bytes the server pulled out of the request body.
type countingBody struct {
	r    *bytes.Reader
	read int
}

func (c *countingBody) Read(p []byte) (int, error) {
	n, err := c.r.Read(p)
	c.read += n
	return n, err
}
func (c *countingBody) Close() error { return nil }

// httpResult is lib.HTTPResp plus the number of body bytes consumed.
type httpResult struct {
	lib.HTTPResp
	BodyRead int
}

// doRequest drives h.ServeHTTP with a recorder inside a recover. declaredLen
// <0 sends the body without a Content-Length (a chunked request).
func doRequest(h http.Handler, method, path string, hdr hdrList, body []byte, declareLen bool) (res httpResult) {
	return doRequestVia(h, method, path, hdr, body, declareLen, nil)
}

// doRequestVia is doRequest with the recorder optionally wrapped: the server
// then talks to wrap(rec), which lets a check observe (or stop at) every
// ResponseWriter call; the result is still read off the recorder.
func doRequestVia(h http.Handler, method, path string, hdr hdrList, body []byte, declareLen bool, wrap func(*httptest.ResponseRecorder) http.ResponseWriter) (res httpResult) {
	req := httptest.NewRequest(method, path, nil)
	cb := &countingBody{r: bytes.NewReader(body)}
	if body != nil {
		req.Body = cb
		if declareLen {
			req.ContentLength = int64(len(body))
		} else {
			req.ContentLength = -1
			req.TransferEncoding = []string{"chunked"}
		}
	}
	for _, kv := range hdr {
		req.Header.Set(kv[0], kv[1])
	}
	rec := httptest.NewRecorder()
	var w http.ResponseWriter = rec
	if wrap != nil {
		w = wrap(rec)
	}
	func() {
		defer func() {
			if rv := recover(); rv != nil {
				res.Panic = fmt.Sprint(rv)
			}
		}()
		h.ServeHTTP(w, req)
	}()
	res.BodyRead = cb.read
	res.Status = rec.Code
	res.Header = rec.Header()
	res.Body = rec.Body.Bytes()
	res.Decoded = res.Body
	ce := strings.ToLower(strings.TrimSpace(res.Header.Get("Content-Encoding")))
	xe := strings.ToLower(strings.TrimSpace(res.Header.Get("X-VGI-Content-Encoding")))
	res.Coding = ce
	if ce == "" && xe != "" {
		res.Coding, res.OnCustomHeader = xe, true
	}
	switch res.Coding {
	case "", "identity":
	case "zstd", "gzip":
		out, err := refDecode(res.Coding, res.Body)
		if err != nil {
			res.Decoded = nil
		} else {
			res.Decoded = out
		}
	default:
		res.Decoded = nil
	}
	return res
}

// refDecode is the harness's own decoder for one coding (no size limits).
func refDecode(coding string, data []byte) ([]byte, error) {
	switch coding {
	case "zstd":
		dec, err := zstd.NewReader(bytes.NewReader(data), zstd.WithDecoderConcurrency(1), zstd.WithDecoderMaxMemory(1<<32))
		if err != nil {
			return nil, err
		}
		defer dec.Close()
		return io.ReadAll(dec)
	case "gzip":
		gz, err := gzip.NewReader(bytes.NewReader(data))
		if err != nil {
			return nil, err
		}
		return io.ReadAll(gz)
	}
	return nil, fmt.Errorf("refDecode: unknown coding %q", coding)
}

// refTokens is the reference Accept-Encoding tokeniser: comma-separated,
// surrounding whitespace trimmed, any ";params" suffix dropped (weights are
// ignored, never used for ordering), lower-cased, empty tokens dropped,
// duplicates collapse onto their first occurrence.
func refTokens(h *string) []string {
	if h == nil {
		return nil
	}
	var out []string
	for _, part := range strings.Split(*h, ",") {
		if i := strings.Index(part, ";"); i >= 0 {
			part = part[:i]
		}
		tok := strings.ToLower(strings.Trim(part, " \t"))
		if tok == "" {
			continue
		}
		dup := false
		for _, o := range out {
			if o == tok {
				dup = true
			}
		}
		if !dup {
			out = append(out, tok)
		}
	}
	return out
}

func has(list []string, s string) bool {
	for _, x := range list {
		if x == s {
			return true
		}
	}
	return false
}

// refNegotiate is the reference negotiation: the client's order is the whole
// custom header followed by what the standard header adds; the first entry
// that is either "identity" (stop: no compression) or a codec the server can
// produce wins. onCustom reports that the winner was offered on the custom
// header only. idx is the winner's index in the merged list (-1: none).
func refNegotiate(custom, standard *string, producible []string) (codec string, onCustom bool, idx int, merged []string) {
	ct, st := refTokens(custom), refTokens(standard)
	merged = append(merged, ct...)
	for _, t := range st {
		if !has(ct, t) {
			merged = append(merged, t)
		}
	}
	for i, t := range merged {
		if t == "identity" {
			return "", false, i, merged
		}
		if has(producible, t) {
			return t, has(ct, t) && !has(st, t), i, merged
		}
	}
	return "", false, -1, merged
}

func newScriptedServer() *vgirpc.Server {
	srv := vgirpc.NewServer()
	srv.SetServerID("srv-hmisc")
	lib.RegisterScripted(srv)
	return srv
}

func strp(s string) *string { return &s }

func showp(s *string) string {
	if s == nil {
		return "<absent>"
	}
	return fmt.Sprintf("%q", *s)
}

// xorshift expands a drawn seed into n bytes over a base64-like alphabet
// (valid UTF-8, poorly compressible). Deterministic in (seed, n).
func pseudoRandomText(seed uint64, n int) []byte {
	const alpha = "ABCDEFGHIJKLMNOPQRSTUVWXYZabcdefghijklmnopqrstuvwxyz0123456789+/"
	x := seed*2685821657736338717 + 1442695040888963407
	if x == 0 {
		x = 88172645463325252
	}
	out := make([]byte, n)
	for i := range out {
		x ^= x << 13
		x ^= x >> 7
		x ^= x << 17
		out[i] = alpha[x>>58]
	}
	return out
}

// pseudoRandomBytes is the binary variant (incompressible).
func pseudoRandomBytes(seed uint64, n int) []byte {
	x := seed*2685821657736338717 + 1442695040888963407
	if x == 0 {
		x = 88172645463325252
	}
	out := make([]byte, n)
	for i := range out {
		x ^= x << 13
		x ^= x >> 7
		x ^= x << 17
		out[i] = byte(x >> 56)
	}
	return out
}

func isThorough() bool { return os.Getenv("VERIF_TIER") == "thorough" }

// emptyOneRow is the one-row, zero-column parameter batch of parameterless methods.
func emptyOneRow() arrow.RecordBatch {
	return array.NewRecordBatch(arrow.NewSchema(nil, nil), nil, 1)
}
