package g_disp

import (
	"encoding/hex"
	"math/big"
	"regexp"
	"strings"
	"testing"

	"pgregory.net/rapid"

	"verifharness/lib"
)

// C10 — the protocol-version gate admits exactly same-major.minor clients.

type c10Case struct {
	Server  string  `json:"server"`           // "" = no declared version
	Client  *string `json:"client,omitempty"` // nil = key absent
	Route   string  `json:"route"`            // pipe_unary | pipe_stream | http_unary | http_init | pipe_describe | http_describe
	Beyond  bool    `json:"beyond_int64,omitempty"`
	Variant string  `json:"variant"`
	// ClientHex, when set, is the client's version string as hex (strings that
	// are not valid UTF-8 do not survive JSON); it replaces Client.
	ClientHex string `json:"client_hex,omitempty"`
	// Prelude: the same Server object first declared PrevServer ("" = none)
	// and served one call stamped PrevClient (nil = the judged call's own
	// version string), then was re-declared to Server for the judged call.
	Prelude    bool    `json:"prelude,omitempty"`
	PrevServer string  `json:"prev_server,omitempty"`
	PrevClient *string `json:"prev_client,omitempty"`
}

var comps = []string{"0", "1", "9", "10", "2147483648", "9223372036854775807"}
var hugeComps = []string{"9223372036854775808", "9223372036854775809", "18446744073709551616", "99999999999999999999999"}

func genSemver(t *rapid.T, label string, huge bool) string {
	part := func(l string) string {
		if huge && rapid.IntRange(0, 1).Draw(t, l+"h") == 0 {
			return hugeComps[rapid.IntRange(0, len(hugeComps)-1).Draw(t, l+"hv")]
		}
		return comps[rapid.IntRange(0, len(comps)-1).Draw(t, l)]
	}
	return part(label+"M") + "." + part(label+"m") + "." + part(label+"p")
}

func genC10(t *rapid.T) c10Case {
	c := c10Case{Route: []string{"pipe_unary", "pipe_stream", "http_unary", "http_init", "pipe_describe", "http_describe"}[rapid.IntRange(0, 5).Draw(t, "route")]}
	c.Beyond = rapid.IntRange(0, 5).Draw(t, "beyond") == 0
	if rapid.IntRange(0, 5).Draw(t, "unset") != 0 {
		c.Server = genSemver(t, "s", c.Beyond)
	}
	base := c.Server
	if base == "" {
		base = "1.2.3"
	}
	parts := strings.Split(base, ".")
	bump := func(s string, d int64) string {
		n, _ := new(big.Int).SetString(s, 10)
		n.Add(n, big.NewInt(d))
		if n.Sign() < 0 {
			return "0"
		}
		return n.String()
	}
	set := func(v string) { c.Client = &v }
	variants := []string{"absent", "identical", "patch", "minor+1", "minor-1", "major+1", "major-1", "random", "leading-zero", "prerelease", "build", "space", "newline", "empty", "two-part", "four-part", "unicode-digits", "v-prefix", "noise", "stray-bytes"}
	c.Variant = variants[rapid.IntRange(0, len(variants)-1).Draw(t, "variant")]
	switch c.Variant {
	case "absent":
	case "identical":
		set(base)
	case "patch":
		set(parts[0] + "." + parts[1] + "." + bump(parts[2], 1))
	case "minor+1":
		set(parts[0] + "." + bump(parts[1], 1) + "." + parts[2])
	case "minor-1":
		set(parts[0] + "." + bump(parts[1], -1) + "." + parts[2])
	case "major+1":
		set(bump(parts[0], 1) + "." + parts[1] + "." + parts[2])
	case "major-1":
		set(bump(parts[0], -1) + "." + parts[1] + "." + parts[2])
	case "random":
		set(genSemver(t, "c", c.Beyond))
	case "leading-zero":
		set("0" + base)
	case "prerelease":
		set(base + "-rc1")
	case "build":
		set(base + "+build5")
	case "space":
		set(" " + base)
	case "newline":
		set(base + "\n")
	case "empty":
		set("")
	case "two-part":
		set(parts[0] + "." + parts[1])
	case "four-part":
		set(base + ".0")
	case "unicode-digits":
		set("١.٢.٣")
	case "v-prefix":
		set("v" + base)
	case "noise":
		set(rapid.String().Draw(t, "noise"))
	case "stray-bytes":
		// a canonical string with bytes mixed in that sanitising layers tend to
		// drop: invalid UTF-8, NUL, zero-width and BOM code points
		stray := []string{"\xff", "\x80", "\xc3", "\xed\xa0\x80", "\x00", "\u200b", "\ufeff", "\u00ad"}[rapid.IntRange(0, 7).Draw(t, "stray")]
		pos := rapid.IntRange(0, len(base)).Draw(t, "straypos")
		c.ClientHex = hex.EncodeToString([]byte(base[:pos] + stray + base[pos:]))
	}
	if rapid.IntRange(0, 3).Draw(t, "prelude") == 0 {
		// a server whose declared version changes while it serves: what was
		// admitted or refused under the old declaration must not carry over
		c.Prelude = true
		switch rapid.IntRange(0, 3).Draw(t, "prevsrv") {
		case 0:
			c.PrevServer = ""
		case 1:
			if c.Client != nil {
				if _, _, ok := refSemver(*c.Client); ok && !c.Beyond {
					c.PrevServer = *c.Client // the judged client string was a match before
				}
			}
		default:
			c.PrevServer = genSemver(t, "ps", false)
		}
		if rapid.Bool().Draw(t, "prevclientown") {
			v := genSemver(t, "pc", false)
			c.PrevClient = &v
		}
	}
	return c
}

var strictSemver = regexp.MustCompile(`^(0|[1-9][0-9]*)\.(0|[1-9][0-9]*)\.(0|[1-9][0-9]*)$`)

// refSemver is the reference parser: canonical MAJOR.MINOR.PATCH, big integers.
func refSemver(s string) (maj, min *big.Int, ok bool) {
	// Go's regexp `$` does not match before a trailing newline, same as \z here
	m := strictSemver.FindStringSubmatch(s)
	if m == nil {
		return nil, nil, false
	}
	maj, _ = new(big.Int).SetString(m[1], 10)
	min, _ = new(big.Int).SetString(m[2], 10)
	return maj, min, true
}

func runC10(c c10Case) (out lib.Outcome) {
	if c.ClientHex != "" {
		b, _ := hex.DecodeString(c.ClientHex)
		v := string(b)
		c.Client = &v
	}
	lib.ResetEvents()
	out.Label("route:"+c.Route, "variant:"+c.Variant)
	if c.Beyond {
		out.Label("beyond-int64")
	}
	id := lib.CallID(0)
	var call lib.CallSpec
	switch c.Route {
	case "pipe_unary", "http_unary":
		call = lib.CallSpec{Kind: "unary", Method: "u_str", Unary: &lib.UnaryScript{ID: id, Outcome: "value", Value: "ok"}}
	case "pipe_stream", "http_init":
		call = lib.CallSpec{Kind: "stream", Method: "s_prod", CancelAt: -1, Ticks: 1, Stream: &lib.StreamScript{ID: id, InitOutcome: "ok", Turns: []lib.TurnSpec{{Act: "emit"}}}}
	default:
		call = lib.CallSpec{Kind: "describe"}
	}
	call.Opts.ProtocolVersion = c.Client
	// reference decision
	describe := strings.HasSuffix(c.Route, "describe")
	admit := c.Server == "" || describe
	reason := ""
	if !admit {
		sMaj, sMin, _ := refSemver(c.Server)
		switch {
		case c.Client == nil:
			reason = "absent"
		default:
			cMaj, cMin, ok := refSemver(*c.Client)
			switch {
			case !ok:
				reason = "malformed"
			case cMaj.Cmp(sMaj) == 0 && cMin.Cmp(sMin) == 0:
				admit = true
			case cMaj.Cmp(sMaj) < 0 || (cMaj.Cmp(sMaj) == 0 && cMin.Cmp(sMin) < 0):
				reason = "client-old"
			default:
				reason = "server-old"
			}
		}
	}
	out.NonTrivial = c.Server != "" && (c.Client == nil || *c.Client != c.Server)
	if admit {
		out.Label("admitted")
	} else {
		out.Label("refused:" + reason)
	}
	var srvPanic string
	func() {
		defer func() {
			if rv := recover(); rv != nil {
				srvPanic = lib.Short(strings.TrimSpace(strings.Split(strings.TrimSpace(toString(rv)), "\n")[0]), 200)
			}
		}()
		_ = newServer("srv", false, c.Server)
	}()
	if srvPanic != "" {
		// the server refuses to be configured with this version: nothing to gate
		out.Label("server-version-rejected-at-config")
		out.Skipped = true
		return
	}
	srv := newServer("srv", false, c.Server)
	if c.Prelude {
		// configure with the earlier declaration, serve one unary call, re-declare
		func() {
			defer func() {
				if rv := recover(); rv != nil {
					srv = nil
				}
			}()
			srv = newServer("srv", false, c.PrevServer)
		}()
		if srv == nil {
			out.Label("server-version-rejected-at-config")
			out.Skipped = true
			return
		}
		pre := lib.CallSpec{Kind: "unary", Method: "u_str", Unary: &lib.UnaryScript{ID: "prelude", Outcome: "value", Value: "x"}}
		pre.Opts.ProtocolVersion = c.Client
		if c.PrevClient != nil {
			pre.Opts.ProtocolVersion = c.PrevClient
		}
		preq, _ := pre.PipeBytes()
		if strings.HasPrefix(c.Route, "pipe") {
			if res := lib.RunPipe(srv, preq); res.Panic != "" {
				out.Violate("C10/pipe-broken", "prelude call panicked: %s", lib.Short(res.Panic, 200))
				return
			}
		} else if resp := lib.PostArrow(newHTTP(srv), "/u_str", preq, nil); resp.Panic != "" {
			out.Violate("C10/http-panic", "prelude call panicked: %s", lib.Short(resp.Panic, 300))
			return
		}
		lib.ResetEvents()
		srv.SetProtocolVersion(c.Server)
		out.Label("redeclared")
	}
	var streams []lib.StreamM
	status := 0
	req, in := call.PipeBytes()
	if strings.HasPrefix(c.Route, "pipe") {
		res := lib.RunPipe(srv, append(append([]byte{}, req...), in...))
		if res.Panic != "" || res.DecodeErr != nil {
			out.Violate("C10/pipe-broken", "panic=%q decode=%v", lib.Short(res.Panic, 200), res.DecodeErr)
			return
		}
		streams = res.Streams
	} else {
		path := map[string]string{"http_unary": "/u_str", "http_init": "/s_prod/init", "http_describe": "/__describe__"}[c.Route]
		resp := lib.PostArrow(newHTTP(srv), path, req, nil)
		if resp.Panic != "" {
			out.Violate("C10/http-panic", "ServeHTTP panicked: %s", lib.Short(resp.Panic, 300))
			return
		}
		status = resp.Status
		var err error
		if streams, err = lib.SplitStreams(resp.Decoded); err != nil {
			out.Violate("C10/body-not-ipc", "%v", err)
			return
		}
	}
	dispatched := len(lib.Events(id)) > 0
	var errBatch *lib.BatchM
	for _, st := range streams {
		for i := range st.Batches {
			if st.Batches[i].Kind() == "error" {
				errBatch = &st.Batches[i]
			}
		}
	}
	cl := "<absent>"
	if c.Client != nil {
		cl = *c.Client
	}
	if admit {
		if !describe && !dispatched {
			out.Violate(lib.Keyf("C10", "refused-compatible", c.Variant), "server %q client %q on %s: handler did not run", c.Server, cl, c.Route)
		}
		if errBatch != nil {
			m, _ := errBatch.Get(lib.KLogMessage)
			out.Violate(lib.Keyf("C10", "error-on-compatible", c.Variant), "server %q client %q on %s: answered with an error: %s", c.Server, cl, c.Route, lib.Short(m, 200))
		}
		return
	}
	if dispatched {
		key := lib.Keyf("C10", "dispatched-incompatible", reason)
		if c.Beyond {
			key += "-beyond-int64"
		}
		out.Violate(key, "server %q client %q on %s: handler ran although the reference gate refuses (%s)", c.Server, cl, c.Route, reason)
		return
	}
	if errBatch == nil {
		out.Violate("C10/refusal-without-error", "server %q client %q on %s: no exception batch", c.Server, cl, c.Route)
		return
	}
	info, err := lib.DecodeError(*errBatch)
	if err != nil {
		out.Violate("C10/refusal-envelope", "%v", err)
		return
	}
	if info.Kind != "protocol_version_mismatch" || info.Type != "ProtocolVersionError" {
		out.Violate("C10/refusal-kind", "refusal has error_kind %q exception_type %q", info.Kind, info.Type)
	}
	if status != 0 && status != 400 {
		out.Violate("C10/refusal-status", "HTTP refusal status %d, expected 400", status)
	}
	// Only the clause the property states is judged on the message: a mismatch
	// names the side that must upgrade. Which versions it quotes, and how an
	// absent or malformed version is described, is wording.
	msg := strings.ToLower(info.Message)
	switch reason {
	case "client-old", "server-old":
		wantOld, other := "client is too old", "server is too old"
		if reason == "server-old" {
			wantOld, other = other, wantOld
		}
		if !strings.Contains(msg, wantOld) || strings.Contains(msg, other) {
			key := lib.Keyf("C10", "refusal-direction", reason)
			if c.Beyond {
				key += "-beyond-int64"
			}
			out.Violate(key, "server %q client %q: expected %q in: %s", c.Server, cl, wantOld, lib.Short(msg, 400))
		}
	}
	return
}

func toString(v any) string {
	if e, ok := v.(error); ok {
		return e.Error()
	}
	if s, ok := v.(string); ok {
		return s
	}
	return "panic"
}

var propC10 = lib.Prop[c10Case]{
	ID: "C10",
	Rule: "server version unset or canonical semver with components from {0,1,9,10,2^31,2^63-1} (separately labelled class: components beyond int64); client version absent, identical, patch/minor/major +-1, random canonical, leading zeros, -rc1, +build, whitespace/newline, empty, two- and four-part, unicode digits, v-prefix, noise; routes pipe unary/stream, HTTP unary, /init and __describe__ on both transports; in a quarter of the cases the same Server first carried another declaration (none, the client's own version, random) under which it served one call, and was then re-declared; " +
		"oracle: reference big-integer strict semver gate decides dispatch (observed via the handler call log), refusal kind/type/status and the directional message. Non-trivial: server version set and client differs from it.",
	Gen:          genC10,
	Run:          runC10,
	Essential:    []string{"admitted", "refused:absent", "refused:malformed", "refused:client-old", "refused:server-old", "route:pipe_stream", "route:http_init", "route:http_describe", "redeclared"},
	EssentialMin: 300,
}

func TestC10(t *testing.T) { lib.Check(t, propC10) }
