package g_disp

import (
	"bytes"
	"context"
	"crypto/sha256"
	"encoding/hex"
	"sort"
	"strconv"
	"testing"

	"github.com/Query-farm/vgi-rpc-go/vgirpc"
	"github.com/apache/arrow-go/v18/arrow"
	"github.com/apache/arrow-go/v18/arrow/array"
	"pgregory.net/rapid"

	"verifharness/lib"
)

// C09 — describe lists the registered surface and hashes it canonically.

type c09Reg struct {
	Name   string         `json:"name"`
	Kind   string         `json:"kind"` // unary | void | producer | producer_h | exchange | exchange_h | dynamic
	PIdx   int            `json:"p"`    // params type index
	RIdx   int            `json:"r"`    // result type index (unary)
	Out    *lib.SchemaIPC `json:"out,omitempty"`
	In     *lib.SchemaIPC `json:"in,omitempty"`
	Header *lib.SchemaIPC `json:"header,omitempty"`
}

type c09Case struct {
	Regs    []c09Reg `json:"regs"`
	Perm    []int    `json:"perm"`
	Service string   `json:"service"`
	Server  string   `json:"server_id"`
	Version string   `json:"version"`
}

type c09P0 struct{}
type c09P1 struct {
	A int64  `vgirpc:"a"`
	S string `vgirpc:"s,default=x"`
}
type c09P2 struct {
	F *float64         `vgirpc:"f"`
	L []string         `vgirpc:"l"`
	M map[string]int64 `vgirpc:"m"`
	E string           `vgirpc:"e,enum"`
	B []byte           `vgirpc:"b"`
	I int32            `vgirpc:"i,int32"`
}
type c09P3 struct {
	X int64 `vgirpc:"x"`
}

var c09DeclSchema = arrow.NewSchema([]arrow.Field{{Name: "request", Type: arrow.BinaryTypes.Binary}}, nil)

func (c09P3) VgiRpcParamsSchema() *arrow.Schema { return c09DeclSchema }

var c09ParamSchemas = []*arrow.Schema{
	arrow.NewSchema(nil, nil),
	arrow.NewSchema([]arrow.Field{{Name: "a", Type: arrow.PrimitiveTypes.Int64}, {Name: "s", Type: arrow.BinaryTypes.String}}, nil),
	arrow.NewSchema([]arrow.Field{
		{Name: "f", Type: arrow.PrimitiveTypes.Float64, Nullable: true},
		{Name: "l", Type: arrow.ListOf(arrow.BinaryTypes.String)},
		{Name: "m", Type: arrow.MapOf(arrow.BinaryTypes.String, arrow.PrimitiveTypes.Int64)},
		{Name: "e", Type: &arrow.DictionaryType{IndexType: arrow.PrimitiveTypes.Int16, ValueType: arrow.BinaryTypes.String}},
		{Name: "b", Type: arrow.BinaryTypes.Binary},
		{Name: "i", Type: arrow.PrimitiveTypes.Int32},
	}, nil),
	c09DeclSchema,
}

var c09ResultSchemas = []*arrow.Schema{
	arrow.NewSchema([]arrow.Field{{Name: "result", Type: arrow.BinaryTypes.String}}, nil),
	arrow.NewSchema([]arrow.Field{{Name: "result", Type: arrow.PrimitiveTypes.Int64}}, nil),
	arrow.NewSchema([]arrow.Field{{Name: "result", Type: arrow.BinaryTypes.Binary}}, nil), // struct result
	arrow.NewSchema([]arrow.Field{{Name: "result", Type: arrow.PrimitiveTypes.Float64, Nullable: true}}, nil),
}

func regUnary[P any](srv *vgirpc.Server, name string, r int) {
	switch r {
	case 0:
		vgirpc.Unary(srv, name, func(context.Context, *vgirpc.CallContext, P) (string, error) { return "", nil })
	case 1:
		vgirpc.Unary(srv, name, func(context.Context, *vgirpc.CallContext, P) (int64, error) { return 0, nil })
	case 2:
		vgirpc.Unary(srv, name, func(context.Context, *vgirpc.CallContext, P) (c09P1, error) { return c09P1{}, nil })
	default:
		vgirpc.Unary(srv, name, func(context.Context, *vgirpc.CallContext, P) (*float64, error) { return nil, nil })
	}
}

func regOne[P any](srv *vgirpc.Server, r c09Reg) {
	sh := func(context.Context, *vgirpc.CallContext, P) (*vgirpc.StreamResult, error) { return nil, nil }
	switch r.Kind {
	case "unary":
		regUnary[P](srv, r.Name, r.RIdx)
	case "void":
		vgirpc.UnaryVoid(srv, r.Name, func(context.Context, *vgirpc.CallContext, P) error { return nil })
	case "producer":
		vgirpc.Producer(srv, r.Name, r.Out.Unpack(), sh)
	case "producer_h":
		vgirpc.ProducerWithHeader(srv, r.Name, r.Out.Unpack(), r.Header.Unpack(), sh)
	case "exchange":
		vgirpc.Exchange(srv, r.Name, r.Out.Unpack(), r.In.Unpack(), sh)
	case "exchange_h":
		vgirpc.ExchangeWithHeader(srv, r.Name, r.Out.Unpack(), r.In.Unpack(), r.Header.Unpack(), sh)
	case "dynamic":
		vgirpc.DynamicStreamWithHeader(srv, r.Name, r.Header.Unpack(), sh)
	}
}

func (c c09Case) build(order []int) *vgirpc.Server {
	srv := vgirpc.NewServer()
	if c.Service != "" {
		srv.SetServiceName(c.Service)
	}
	if c.Server != "" {
		srv.SetServerID(c.Server)
	}
	if c.Version != "" {
		srv.SetProtocolVersion(c.Version)
	}
	for _, i := range order {
		r := c.Regs[i]
		switch r.PIdx {
		case 0:
			regOne[c09P0](srv, r)
		case 1:
			regOne[c09P1](srv, r)
		case 2:
			regOne[c09P2](srv, r)
		default:
			regOne[c09P3](srv, r)
		}
	}
	return srv
}

var c09Names = []string{"a", "ab", "abc", "A", "Ab", "echo", "Echo", "метод", "метод2", "z_last", "0first", "with space", "日本", "a.b", "a-b", "a_b", "É", "é"}

func genC09(t *rapid.T) c09Case {
	c := c09Case{Service: []string{"", "Svc", "сервис", "a|b"}[rapid.IntRange(0, 3).Draw(t, "svc")],
		Server: []string{"", "srv-1"}[rapid.IntRange(0, 1).Draw(t, "sid")], Version: []string{"", "1.2.3"}[rapid.IntRange(0, 1).Draw(t, "ver")]}
	n := rapid.IntRange(0, 12).Draw(t, "nregs")
	names := rapid.Permutation(c09Names).Draw(t, "names")
	kinds := []string{"unary", "void", "producer", "producer_h", "exchange", "exchange_h", "dynamic"}
	var earlier []*arrow.Schema
	sch := func(label string) *lib.SchemaIPC {
		var as *arrow.Schema
		if len(earlier) > 0 && rapid.IntRange(0, 2).Draw(t, "sibling?") == 0 {
			// a schema that differs from one registered earlier only in what
			// coarse comparisons overlook: metadata, child field attributes
			as = c09Sibling(earlier[rapid.IntRange(0, len(earlier)-1).Draw(t, "sibof")], rapid.IntRange(0, 3).Draw(t, "sibvar"), strconv.Itoa(len(earlier)))
		} else {
			as = lib.GenSchema(t, 0, 3, 1, lib.TypeOpts{})
		}
		earlier = append(earlier, as)
		s := lib.PackSchema(as)
		return &s
	}
	for i := 0; i < n; i++ {
		r := c09Reg{Name: names[i], Kind: kinds[rapid.IntRange(0, len(kinds)-1).Draw(t, "kind")], PIdx: rapid.IntRange(0, 3).Draw(t, "p"), RIdx: rapid.IntRange(0, 3).Draw(t, "r")}
		switch r.Kind {
		case "producer":
			r.Out = sch("out")
		case "producer_h":
			r.Out, r.Header = sch("out"), sch("hdr")
		case "exchange":
			r.Out, r.In = sch("out"), sch("in")
		case "exchange_h":
			r.Out, r.In, r.Header = sch("out"), sch("in"), sch("hdr")
		case "dynamic":
			r.Header = sch("hdr")
		}
		c.Regs = append(c.Regs, r)
	}
	idx := make([]int, n)
	for i := range idx {
		idx[i] = i
	}
	c.Perm = rapid.Permutation(idx).Draw(t, "perm")
	return c
}

// c09Sibling returns base with one attribute changed that leaves names, types
// and top-level nullability alone.
func c09Sibling(base *arrow.Schema, variant int, tag string) *arrow.Schema {
	fields := append([]arrow.Field{}, base.Fields()...)
	md := base.Metadata()
	switch {
	case variant == 0 || len(fields) == 0:
		md = arrow.NewMetadata(append(append([]string{}, md.Keys()...), "revision"), append(append([]string{}, md.Values()...), tag))
	case variant == 1:
		f := fields[0]
		f.Metadata = arrow.NewMetadata(append(append([]string{}, f.Metadata.Keys()...), "unit"), append(append([]string{}, f.Metadata.Values()...), "u"+tag))
		fields[0] = f
	default:
		changed := false
		for i, f := range fields {
			if lt, ok := f.Type.(*arrow.ListType); ok {
				ef := lt.ElemField()
				if variant == 2 {
					ef.Nullable = !ef.Nullable
				} else {
					ef.Metadata = arrow.NewMetadata([]string{"elem"}, []string{tag})
				}
				f.Type = arrow.ListOfField(ef)
				fields[i] = f
				changed = true
				break
			}
		}
		if !changed {
			return c09Sibling(base, 1, tag)
		}
	}
	return arrow.NewSchema(fields, &md)
}

type c09Row struct {
	Name, Type        string
	HasReturn, HasHdr bool
	IsExch            any
	Params, Res, Hdr  []byte
	HdrNull           bool
}

func c09HasFieldMeta(s *arrow.Schema) bool {
	for _, f := range s.Fields() {
		if f.Metadata.Len() > 0 {
			return true
		}
	}
	return false
}

func refHash(protocolName string, rows []c09Row) string {
	h := sha256.New()
	h.Write([]byte("vgi_rpc.describe.v4|1|" + protocolName + "|"))
	b := func(v bool) string {
		if v {
			return "1"
		}
		return "0"
	}
	for _, r := range rows {
		h.Write([]byte{0x1f})
		h.Write([]byte(r.Name))
		h.Write([]byte{0x1e})
		h.Write([]byte(r.Type))
		h.Write([]byte{0x1e})
		h.Write([]byte(b(r.HasReturn)))
		h.Write([]byte{0x1e})
		h.Write([]byte(b(r.HasHdr)))
		h.Write([]byte{0x1e})
		switch v := r.IsExch.(type) {
		case nil:
			h.Write([]byte("-"))
		case bool:
			h.Write([]byte(b(v)))
		}
		h.Write([]byte{0x1e})
		h.Write(r.Params)
		h.Write([]byte{0x1e})
		h.Write(r.Res)
		h.Write([]byte{0x1e})
		h.Write(r.Hdr)
	}
	return hex.EncodeToString(h.Sum(nil))
}

func decodeSchemaBytes(b []byte) (*arrow.Schema, error) {
	ss, err := lib.SplitStreams(b)
	if err != nil {
		return nil, err
	}
	if len(ss) != 1 {
		return nil, errStreams
	}
	return ss[0].Schema, nil
}

var errStreams = &vgirpc.RpcError{Type: "harness", Message: "schema bytes are not exactly one IPC stream"}

func describeVia(c c09Case, order []int, http bool, out *lib.Outcome) (lib.BatchM, string, bool) {
	srv := c.build(order)
	call := lib.CallSpec{Kind: "describe"}
	req, _ := call.PipeBytes()
	var body []byte
	if http {
		resp := lib.PostArrow(newHTTP(srv), "/__describe__", req, nil)
		if resp.Panic != "" || resp.Status != 200 {
			out.Violate("C09/http-describe-failed", "status=%d panic=%q", resp.Status, lib.Short(resp.Panic, 200))
			return lib.BatchM{}, "", false
		}
		body = resp.Decoded
	} else {
		res := lib.RunPipe(srv, req)
		if res.Panic != "" {
			out.Violate("C09/pipe-describe-panic", "%s", lib.Short(res.Panic, 300))
			return lib.BatchM{}, "", false
		}
		body = res.Out
	}
	b, err := lib.DecodeOne(body)
	if err != nil {
		out.Violate("C09/describe-not-one-batch", "%v", err)
		return lib.BatchM{}, "", false
	}
	return b, srv.ProtocolHash(), true
}

func runC09(c c09Case) (out lib.Outcome) {
	natural := make([]int, len(c.Regs))
	for i := range natural {
		natural[i] = i
	}
	b, srvHash, ok := describeVia(c, natural, false, &out)
	if !ok {
		return
	}
	kinds := map[string]bool{}
	hdrs := 0
	byName := map[string]c09Reg{}
	for _, r := range c.Regs {
		kinds[r.Kind] = true
		if r.Header != nil {
			hdrs++
		}
		byName[r.Name] = r
	}
	out.NonTrivial = len(c.Regs) >= 3 && len(kinds) >= 2 && hdrs >= 1
	if out.NonTrivial {
		out.Label("rich-surface")
	}
	if len(c.Regs) == 0 {
		out.Label("empty-surface")
	}
	rec := b.Rec
	wantCols := []string{"name", "method_type", "has_return", "params_schema_ipc", "result_schema_ipc", "has_header", "header_schema_ipc", "is_exchange"}
	if int(rec.NumCols()) != len(wantCols) {
		out.Violate("C09/describe-columns", "describe batch has %d columns", rec.NumCols())
		return
	}
	for i, n := range wantCols {
		if rec.ColumnName(i) != n {
			out.Violate("C09/describe-columns", "column %d is %q, expected %q", i, rec.ColumnName(i), n)
			return
		}
	}
	var rows []c09Row
	var names []string
	for i := 0; i < int(rec.NumRows()); i++ {
		r := c09Row{}
		r.Name, _ = lib.Value(rec.Column(0), i).(string)
		r.Type, _ = lib.Value(rec.Column(1), i).(string)
		r.HasReturn, _ = lib.Value(rec.Column(2), i).(bool)
		r.Params = rec.Column(3).(*array.Binary).Value(i)
		r.Res = rec.Column(4).(*array.Binary).Value(i)
		r.HasHdr, _ = lib.Value(rec.Column(5), i).(bool)
		if rec.Column(6).IsNull(i) {
			r.HdrNull = true
		} else {
			r.Hdr = rec.Column(6).(*array.Binary).Value(i)
		}
		r.IsExch = lib.Value(rec.Column(7), i)
		rows = append(rows, r)
		names = append(names, r.Name)
	}
	// every registered method exactly once, sorted
	var want []string
	for n := range byName {
		want = append(want, n)
	}
	sort.Strings(want)
	if len(names) != len(want) {
		out.Violate("C09/method-set", "describe lists %v, registered %v", names, want)
		return
	}
	for i := range want {
		if names[i] != want[i] {
			out.Violate("C09/method-order", "describe lists %v, expected sorted %v", names, want)
			return
		}
	}
	for _, r := range rows {
		reg := byName[r.Name]
		wantType := "stream"
		if reg.Kind == "unary" || reg.Kind == "void" {
			wantType = "unary"
		}
		if r.Type != wantType {
			out.Violate("C09/method-type", "%s (%s) described as %q", r.Name, reg.Kind, r.Type)
		}
		if r.HasReturn != (reg.Kind == "unary") {
			out.Violate("C09/has-return", "%s (%s) has_return=%v", r.Name, reg.Kind, r.HasReturn)
		}
		if r.HasHdr != (reg.Header != nil) {
			out.Violate("C09/has-header", "%s (%s) has_header=%v", r.Name, reg.Kind, r.HasHdr)
		}
		ps, err := decodeSchemaBytes(r.Params)
		if err != nil {
			out.Violate("C09/params-schema-bytes", "%s: %v", r.Name, err)
		} else if d := lib.SchemaDiff(c09ParamSchemas[reg.PIdx], ps); d != "" {
			out.Violate("C09/params-schema", "%s params (type %d): %s", r.Name, reg.PIdx, d)
		}
		var wantRes *arrow.Schema
		switch reg.Kind {
		case "unary":
			wantRes = c09ResultSchemas[reg.RIdx]
		case "void", "dynamic":
			wantRes = arrow.NewSchema(nil, nil)
		default:
			wantRes = reg.Out.Unpack()
		}
		rs, err := decodeSchemaBytes(r.Res)
		if err != nil {
			out.Violate("C09/result-schema-bytes", "%s: %v", r.Name, err)
		} else if d := lib.SchemaDiff(wantRes, rs); d != "" {
			out.Violate(lib.Keyf("C09", "result-schema", reg.Kind), "%s result/output: %s", r.Name, d)
		} else if reg.Out != nil {
			// a schema registered as an object is described exactly: metadata and child attributes too
			if d := lib.StrictSchemaDiff(wantRes, rs); d != "" {
				out.Violate(lib.Keyf("C09", "result-schema-exact", reg.Kind), "%s output: %s", r.Name, d)
			}
			if wantRes.Metadata().Len() > 0 || c09HasFieldMeta(wantRes) {
				out.Label("registered-schema-with-metadata")
			}
		}
		if reg.Header == nil {
			if !r.HdrNull {
				out.Violate("C09/header-schema", "%s has no header but header_schema_ipc is set", r.Name)
			}
		} else {
			hs, err := decodeSchemaBytes(r.Hdr)
			if r.HdrNull || err != nil {
				out.Violate("C09/header-schema", "%s header schema missing/undecodable (null=%v err=%v)", r.Name, r.HdrNull, err)
			} else if d := lib.SchemaDiff(reg.Header.Unpack(), hs); d != "" {
				out.Violate("C09/header-schema", "%s header: %s", r.Name, d)
			} else if d := lib.StrictSchemaDiff(reg.Header.Unpack(), hs); d != "" {
				out.Violate("C09/header-schema-exact", "%s header: %s", r.Name, d)
			}
		}
	}
	// metadata + hash
	get := func(k string) string { v, _ := b.Get(k); return v }
	protoName := c.Service
	if protoName == "" {
		protoName = "GoRpcServer"
	}
	if get("vgi_rpc.protocol_name") != protoName || get("vgi_rpc.describe_version") != "4" || get(lib.KRequestVersion) != "1" {
		out.Violate("C09/describe-metadata", "metadata %v", lib.MetaMultiset(b.Meta))
	}
	if get(lib.KServerID) != c.Server || get(lib.KProtoVersion) != c.Version {
		out.Violate("C09/describe-metadata", "server id / protocol version metadata wrong: %v", lib.MetaMultiset(b.Meta))
	}
	hash := get(lib.KProtoHash)
	if ref := refHash(protoName, rows); hash != ref {
		out.Violate("C09/hash-reference", "protocol_hash %s differs from the reference digest %s of the served payload", hash, ref)
	}
	if hash != srvHash {
		out.Violate("C09/hash-accessor", "describe hash %s != Server.ProtocolHash() %s", hash, srvHash)
	}
	// registration order and transport independence
	b2, _, ok := describeVia(c, c.Perm, false, &out)
	if ok {
		if h2, _ := b2.Get(lib.KProtoHash); h2 != hash {
			out.Violate("C09/hash-order-dependent", "hash differs between registration orders: %s vs %s", hash, h2)
		}
		if d := lib.BatchDiff(b.Rec, b2.Rec); d != "" {
			out.Violate("C09/describe-order-dependent", "describe payload differs between registration orders: %s", d)
		}
	}
	b3, _, ok := describeVia(c, c.Perm, true, &out)
	if ok {
		if d := lib.BatchDiff(b.Rec, b3.Rec); d != "" {
			out.Violate("C09/describe-http-differs", "HTTP describe differs from pipe: %s", d)
		}
		if !bytes.Equal([]byte(get(lib.KProtoHash)), []byte(func() string { v, _ := b3.Get(lib.KProtoHash); return v }())) {
			out.Violate("C09/describe-http-differs", "HTTP describe hash differs from pipe")
		}
	}
	return
}

var propC09 = lib.Prop[c09Case]{
	ID: "C09",
	Rule: "0-12 registrations with names from a pool of unicode/prefix/case-colliding names, kinds unary/void/producer/exchange (+-header)/dynamic, four parameter struct types (incl. a ParamsSchemaDeclarer) x four result types, generated output/input/header schemas, service name, server id, protocol version, and a random registration permutation; " +
		"oracle: decoded __describe__ rows = sorted registered names once each with type/flags and schema bytes decoding to the registered schemas; protocol_hash = my independent digest of the documented framing over the served rows = Server.ProtocolHash(), identical across registration orders and between pipe and HTTP. Non-trivial: >=3 methods of >=2 kinds with >=1 header.",
	Gen:          genC09,
	Run:          runC09,
	Essential:    []string{"rich-surface", "empty-surface", "registered-schema-with-metadata"},
	EssentialMin: 200,
	Assumptions:  []string{"the hash framing is pinned from describe.go's documentation/CLAUDE.md (no Python reference in the sandbox)", "cross-process determinism is argued from the absence of process-dependent inputs, not run in a second process in the quick tier"},
}

func TestC09(t *testing.T) { lib.Check(t, propC09) }
