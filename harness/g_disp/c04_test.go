package g_disp

import (
	"strings"
	"testing"

	"github.com/apache/arrow-go/v18/arrow"
	"pgregory.net/rapid"

	"verifharness/lib"
)

// C04 — unary calls return the handler's value or its error, after its logs.

type c04Case struct {
	Call      lib.CallSpec `json:"call"`
	ServerID  string       `json:"server_id"`
	Transport string       `json:"transport"` // pipe | http
}

var unaryMethods = []string{"u_str", "u_int", "u_bytes", "u_struct", "u_void"}

func genC04(t *rapid.T) c04Case {
	c := c04Case{Transport: []string{"pipe", "http"}[rapid.IntRange(0, 1).Draw(t, "transport")]}
	if rapid.Bool().Draw(t, "sid") {
		c.ServerID = "srv-" + lib.GenString(t, "sidv")
	}
	s := lib.GenUnaryScript(t, lib.CallID(0))
	// more logs than the shared generator draws, so level filtering bites
	s.Logs = append(s.Logs, lib.GenLogs(t, 5)...)
	if s.Err != nil && s.Err.Kind == "kinded" {
		s.Err.Kind = "plain"
	}
	c.Call = lib.CallSpec{Kind: "unary", Method: unaryMethods[rapid.IntRange(0, 4).Draw(t, "method")], Unary: s}
	if rapid.IntRange(0, 3).Draw(t, "rid?") != 0 {
		c.Call.Opts.RequestID = "rid-" + lib.GenString(t, "rid")
	}
	if rapid.IntRange(0, 4).Draw(t, "ll?") != 0 {
		c.Call.Opts.LogLevel = []string{"TRACE", "DEBUG", "INFO", "WARN", "ERROR", "EXCEPTION"}[rapid.IntRange(0, 5).Draw(t, "ll")]
	}
	return c
}

func declaredResultSchema(method string) *arrow.Schema {
	switch method {
	case "u_str":
		return arrow.NewSchema([]arrow.Field{{Name: "result", Type: arrow.BinaryTypes.String}}, nil)
	case "u_int":
		return arrow.NewSchema([]arrow.Field{{Name: "result", Type: arrow.PrimitiveTypes.Int64}}, nil)
	case "u_bytes", "u_struct":
		return arrow.NewSchema([]arrow.Field{{Name: "result", Type: arrow.BinaryTypes.Binary}}, nil)
	}
	return arrow.NewSchema(nil, nil)
}

func runC04(c c04Case) (out lib.Outcome) {
	lib.ResetEvents()
	call, s := c.Call, c.Call.Unary
	req, _ := call.PipeBytes()
	out.Label("transport:"+c.Transport, "outcome:"+s.Outcome)
	var streams []lib.StreamM
	if c.Transport == "pipe" {
		res := lib.RunPipe(newServer(c.ServerID, false, ""), req)
		if res.Panic != "" || res.DecodeErr != nil {
			out.Violate("C04/pipe-broken", "panic=%q decode=%v", lib.Short(res.Panic, 200), res.DecodeErr)
			return
		}
		streams = res.Streams
	} else {
		resp := lib.PostArrow(newHTTP(newServer(c.ServerID, false, "")), "/"+call.Method, req, nil)
		if resp.Panic != "" {
			out.Violate("C04/http-panic", "ServeHTTP panicked: %s", lib.Short(resp.Panic, 300))
			return
		}
		if resp.Status != 200 {
			out.Violate("C04/http-status", "status %d for a dispatched unary call", resp.Status)
			return
		}
		if resp.IsRPCError() != (s.Outcome == "error") {
			out.Violate("C04/http-error-header", "X-VGI-RPC-Error=%v but handler failed=%v", resp.IsRPCError(), s.Outcome == "error")
		}
		var err error
		streams, err = lib.SplitStreams(resp.Decoded)
		if err != nil {
			out.Violate("C04/http-body", "body does not decode: %v", err)
			return
		}
	}
	if len(streams) != 1 {
		out.Violate("C04/stream-count", "expected one response stream, got %d", len(streams))
		return
	}
	st := streams[0]
	if d := lib.SchemaDiff(declaredResultSchema(call.Method), st.Schema); d != "" {
		out.Violate("C04/result-schema", "response schema differs from the declared result schema: %s", d)
	}
	// expected logs: emitted at or above the requested level, in order
	var exp []lib.LogSpec
	filteredSome, keptSome := false, false
	levels := map[string]bool{}
	for _, l := range s.Logs {
		levels[l.Level] = true
		pass, ok := lib.LogPasses(l.Level, call.Opts.LogLevel)
		if !ok {
			out.Skipped = true
			return
		}
		if pass {
			exp = append(exp, l)
			keptSome = true
		} else {
			filteredSome = true
		}
	}
	out.NonTrivial = len(s.Logs) >= 2 && len(levels) >= 2 && filteredSome && keptSome
	if out.NonTrivial {
		out.Label("filter-bites")
	}
	want := make([]lib.ExpBatch, 0, len(exp)+1)
	for _, l := range exp {
		eb := lib.ExpBatch{Kind: "log", Level: l.Level, Msg: l.Msg}
		if len(l.Extras) > 0 {
			eb.Extras = map[string]string{}
			for _, kv := range l.Extras {
				eb.Extras[kv[0]] = kv[1]
			}
		}
		want = append(want, eb)
	}
	if s.Outcome == "error" {
		want = append(want, lib.ExpBatch{Kind: "error", Err: s.Err})
	} else {
		want = append(want, lib.ExpBatch{Kind: "data"})
	}
	// structural comparison (kinds, logs, error message); the data value is checked below
	if len(st.Batches) != len(want) {
		kinds := ""
		for _, b := range st.Batches {
			kinds += b.Kind() + " "
		}
		out.Violate(lib.Keyf("C04", "batch-count", s.Outcome), "expected %d batches (%d logs + 1 %s), got [%s]", len(want), len(exp), want[len(want)-1].Kind, kinds)
		return
	}
	for i, w := range want {
		b := st.Batches[i]
		if b.Kind() != w.Kind {
			out.Violate(lib.Keyf("C04", "batch-kind", w.Kind), "batch %d is %s, expected %s", i, b.Kind(), w.Kind)
			return
		}
		if w.Kind == "log" || w.Kind == "error" {
			rid, has := b.Get(lib.KRequestID)
			if call.Opts.RequestID != "" && rid != call.Opts.RequestID {
				out.Violate(lib.Keyf("C04", "request-id-echo", w.Kind, c.Transport), "%s batch %d carries request id %q (present=%v), client sent %q", w.Kind, i, rid, has, call.Opts.RequestID)
			}
			sid, _ := b.Get(lib.KServerID)
			if sid != c.ServerID {
				out.Violate("C04/server-id", "%s batch %d carries server id %q, server is %q", w.Kind, i, sid, c.ServerID)
			}
		}
	}
	sub := lib.Outcome{}
	lib.CompareToModel("C04", []lib.ExpStream{{Schema: st.Schema, Batches: withData(want, st)}}, []lib.StreamM{st}, &sub)
	out.Violations = append(out.Violations, sub.Violations...)
	if s.Outcome != "error" {
		b := st.Batches[len(st.Batches)-1]
		switch call.Method {
		case "u_void":
			if b.Rec.NumRows() != 0 || b.Rec.NumCols() != 0 {
				out.Violate("C04/void-result", "void result has %d rows %d cols", b.Rec.NumRows(), b.Rec.NumCols())
			}
		default:
			if b.Rec.NumRows() != 1 || b.Rec.NumCols() != 1 {
				out.Violate("C04/result-shape", "result batch has %d rows %d cols", b.Rec.NumRows(), b.Rec.NumCols())
				break
			}
			v := lib.Value(b.Rec.Column(0), 0)
			switch call.Method {
			case "u_str":
				if v != s.Value {
					out.Violate("C04/result-value", "u_str returned %q, handler returned %q", v, s.Value)
				}
			case "u_int":
				if v != int64(len(s.Value)) {
					out.Violate("C04/result-value", "u_int returned %v, handler returned %d", v, len(s.Value))
				}
			case "u_bytes":
				if v != "0x"+strings.Repeat("62", s.Size) {
					out.Violate("C04/result-value", "u_bytes returned %d hex chars, handler returned %d bytes", len(v.(string))-2, s.Size)
				}
			case "u_struct":
				inner, err := lib.SplitStreams(b.Rec.Column(0).(interface{ Value(int) []byte }).Value(0))
				if err != nil || len(inner) != 1 || len(inner[0].Batches) != 1 {
					out.Violate("C04/result-value", "u_struct result is not one IPC batch: %v", err)
					break
				}
				rows := lib.Rows(inner[0].Batches[0].Rec)
				if len(rows) != 4 || rows[0][0] != int64(len(s.Value)) || rows[1][0] != s.Value {
					out.Violate("C04/result-value", "u_struct fields %v do not match the returned struct (a=%d s=%q)", rows, len(s.Value), s.Value)
				}
			}
		}
	}
	return
}

// withData fills the expected data batch with the actual one so that
// CompareToModel checks logs/errors only (the value is checked separately).
func withData(want []lib.ExpBatch, st lib.StreamM) []lib.ExpBatch {
	outb := append([]lib.ExpBatch{}, want...)
	for i := range outb {
		if outb[i].Kind == "data" {
			outb[i].Data = st.Batches[i].Rec
		}
	}
	return outb
}

var propC04 = lib.Prop[c04Case]{
	ID: "C04",
	Rule: "one scripted unary call per case (five result kinds incl. void and struct), 0-8 client logs over TRACE..ERROR with extras (duplicate keys, unicode), outcome value / RpcError / plain / wrapped / custom error / panics of five kinds, requested log level absent or any of the six, request id and server id on/off, over pipe and HTTP; " +
		"oracle: [logs at or above the requested level in emission order with level/message/extras/request id/server id] + exactly one data batch of the declared result schema holding the returned value, or exactly one EXCEPTION and no data; HTTP 200 and X-VGI-RPC-Error iff failure. Non-trivial: >=2 logs of different levels with a requested level that filters some but not all.",
	Gen:          genC04,
	Run:          runC04,
	Essential:    []string{"transport:pipe", "transport:http", "outcome:error", "outcome:value", "filter-bites"},
	EssentialMin: 300,
}

func TestC04(t *testing.T) { lib.Check(t, propC04) }
