package g_disp

import (
	"strings"
	"testing"
	"time"

	"pgregory.net/rapid"

	"verifharness/lib"
)

// C05 — error envelopes carry a stable cross-language error type.

type c05Case struct {
	Where     string       `json:"where"` // unary | init | produce | exchange | framework
	Framework string       `json:"framework,omitempty"`
	Err       *lib.ErrSpec `json:"err,omitempty"`
	Debug     bool         `json:"debug"`
	Transport string       `json:"transport"` // pipe | http
	Method    string       `json:"method"`
	CapBytes  int64        `json:"cap_bytes,omitempty"`
}

func genC05(t *rapid.T) c05Case {
	c := c05Case{Debug: rapid.Bool().Draw(t, "debug"), Transport: []string{"pipe", "http"}[rapid.IntRange(0, 1).Draw(t, "transport")]}
	switch rapid.IntRange(0, 9).Draw(t, "where") {
	case 0, 1, 2:
		c.Where, c.Method = "unary", []string{"u_str", "u_void", "u_struct"}[rapid.IntRange(0, 2).Draw(t, "um")]
	case 3, 4:
		c.Where, c.Method = "init", []string{"s_prod", "s_exch_h", "s_dyn"}[rapid.IntRange(0, 2).Draw(t, "im")]
	case 5, 6:
		c.Where, c.Method = "produce", []string{"s_prod", "s_prod_h"}[rapid.IntRange(0, 1).Draw(t, "pm")]
	case 7:
		c.Where, c.Method = "exchange", []string{"s_exch", "s_exch_h"}[rapid.IntRange(0, 1).Draw(t, "em")]
	default:
		c.Where = "framework"
		c.Framework = []string{"unknown_method", "version_mismatch", "max_response_bytes", "nil_result", "wrong_state", "bad_params", "session_lost", "draining", "draining",
			"http_bad_token", "http_unknown_coding", "http_undecodable_body", "http_oversize", "http_wrong_ctype"}[rapid.IntRange(0, 13).Draw(t, "fw")]
		if c.Framework == "max_response_bytes" || c.Framework == "session_lost" || c.Framework == "draining" || strings.HasPrefix(c.Framework, "http_") {
			c.Transport = "http"
		}
		if c.Framework == "draining" {
			// the handler gets the refusal from ctx.OpenSession and hands it back
			c.Method = []string{"u_open", "s_open"}[rapid.IntRange(0, 1).Draw(t, "drainm")]
		}
	}
	if c.Where != "framework" {
		c.Err = lib.GenErrSpec(t)
		// exotic type strings a handler may choose
		if c.Err.Kind == "rpc" && rapid.IntRange(0, 3).Draw(t, "exotic") == 0 {
			c.Err.Type = []string{"", "my.pkg.Error", "*ptr", "Üñí", "A B"}[rapid.IntRange(0, 4).Draw(t, "exotictype")]
		}
	}
	return c
}

func (c c05Case) call() lib.CallSpec {
	id := lib.CallID(0)
	switch c.Where {
	case "unary":
		return lib.CallSpec{Kind: "unary", Method: c.Method, Unary: &lib.UnaryScript{ID: id, Outcome: "error", Err: c.Err}}
	case "init":
		return lib.CallSpec{Kind: "stream", Method: c.Method, CancelAt: -1, Ticks: 2,
			Stream: &lib.StreamScript{ID: id, InitOutcome: "error", InitErr: c.Err, DynKind: "producer"}}
	case "produce":
		return lib.CallSpec{Kind: "stream", Method: c.Method, CancelAt: -1, Ticks: 3,
			Stream: &lib.StreamScript{ID: id, InitOutcome: "ok", Turns: []lib.TurnSpec{{Act: "emit"}, {Act: "error", Err: c.Err}}}}
	case "exchange":
		return lib.CallSpec{Kind: "stream", Method: c.Method, CancelAt: -1,
			Inputs: []lib.InputSpec{{Vals: []int64{1}}, {Vals: []int64{2}}},
			Stream: &lib.StreamScript{ID: id, InitOutcome: "ok", Turns: []lib.TurnSpec{{Act: "emit"}, {Act: "error", Err: c.Err}}}}
	}
	switch c.Framework {
	case "unknown_method":
		return lib.CallSpec{Kind: "unknown"}
	case "version_mismatch":
		v := "9.9.9"
		return lib.CallSpec{Kind: "unary", Method: "u_str", Unary: &lib.UnaryScript{ID: id, Outcome: "value"}, Opts: lib.ReqOpts{ProtocolVersion: &v}}
	case "max_response_bytes":
		return lib.CallSpec{Kind: "unary", Method: "u_bytes", Unary: &lib.UnaryScript{ID: id, Outcome: "value", Size: 5000}}
	case "nil_result":
		return lib.CallSpec{Kind: "stream", Method: "s_prod", CancelAt: -1, Ticks: 1, Stream: &lib.StreamScript{ID: id, InitOutcome: "nil"}}
	case "wrong_state":
		return lib.CallSpec{Kind: "stream", Method: "s_exch", CancelAt: -1, Stream: &lib.StreamScript{ID: id, InitOutcome: "wrongstate"}}
	case "bad_params":
		return lib.CallSpec{Kind: "unary", Method: "u_str", BadParams: "wrongtype", Unary: &lib.UnaryScript{ID: id, Outcome: "value"}}
	case "session_lost", "http_unknown_coding", "http_undecodable_body", "http_oversize", "http_wrong_ctype":
		return lib.CallSpec{Kind: "unary", Method: "u_str", Unary: &lib.UnaryScript{ID: id, Outcome: "value", Value: strings.Repeat("v", 64)}}
	case "http_bad_token":
		return lib.CallSpec{Kind: "stream", Method: "s_exch", CancelAt: -1, Stream: &lib.StreamScript{ID: id, InitOutcome: "ok", Turns: []lib.TurnSpec{{Act: "emit"}}}}
	case "draining":
		if c.Method == "s_open" {
			return lib.CallSpec{Kind: "stream", Method: "s_open", CancelAt: -1, Ticks: 1, Stream: &lib.StreamScript{ID: id, InitOutcome: "ok"}}
		}
		return lib.CallSpec{Kind: "unary", Method: "u_open", Unary: &lib.UnaryScript{ID: id, Outcome: "value"}}
	}
	panic("c05 call")
}

// collectErrors returns every EXCEPTION batch the client sees for the call.
func (c c05Case) collectErrors(out *lib.Outcome) []lib.BatchM {
	call := c.call()
	version := ""
	if c.Framework == "version_mismatch" {
		version = "1.2.3"
	}
	srv := newServer("srv", c.Debug, version)
	var bodies [][]byte
	if c.Transport == "pipe" {
		req, in := call.PipeBytes()
		res := lib.RunPipe(srv, append(append([]byte{}, req...), in...))
		if res.Panic != "" || res.DecodeErr != nil {
			out.Violate("C05/pipe-broken", "panic=%q decode=%v", lib.Short(res.Panic, 200), res.DecodeErr)
			return nil
		}
		bodies = append(bodies, res.Out)
	} else {
		h := newHTTP(srv)
		if c.Framework == "max_response_bytes" {
			h.SetMaxResponseBytes(1000)
		}
		var hdr map[string]string
		switch c.Framework {
		case "session_lost":
			h.EnableSticky(time.Minute)
			hdr = map[string]string{"VGI-Session": "bm90LWEtc2Vzc2lvbi10b2tlbg"}
		case "draining":
			h.EnableSticky(time.Minute)
			h.DrainHandle().Drain()
			hdr = map[string]string{"VGI-Session-Accept": "true"}
		}
		req, _ := call.PipeBytes()
		path := "/" + call.Method
		if call.Kind == "unknown" {
			path = "/no_such_method"
		}
		if call.Kind == "stream" {
			path += "/init"
		}
		// refusals the HTTP layer writes itself, before or instead of a dispatch
		switch c.Framework {
		case "http_unknown_coding":
			hdr = map[string]string{"Content-Encoding": "br"}
		case "http_undecodable_body":
			hdr = map[string]string{"Content-Encoding": "zstd"}
			req = []byte("not a zstd frame at all")
		case "http_oversize":
			h.SetMaxRequestBytes(64)
		case "http_bad_token":
			path = "/s_exch/exchange"
			req = lib.ContinuationBody(lib.Int64Batch(lib.InSchema, 1), "AAAAbm90LWEtdG9rZW4tYXQtYWxsLWJ1dC1sb25nLWVub3VnaC10by1wYXNzLWEtbGVuZ3RoLWNoZWNr", "", nil)
		}
		var resp lib.HTTPResp
		if c.Framework == "http_wrong_ctype" {
			resp = lib.DoHTTP(h, "POST", path, map[string]string{"Content-Type": "text/plain"}, req)
		} else {
			resp = lib.PostArrow(h, path, req, hdr)
		}
		if resp.Panic != "" {
			out.Violate("C05/http-panic", "ServeHTTP panicked: %s", lib.Short(resp.Panic, 300))
			return nil
		}
		if strings.HasPrefix(c.Framework, "http_") && !strings.HasPrefix(resp.Header.Get("Content-Type"), lib.ArrowCT) {
			plainRefusal = true
			return nil
		}
		bodies = append(bodies, resp.Decoded)
		// follow the stream for turn errors
		if (c.Where == "produce" || c.Where == "exchange") && resp.Status == 200 {
			body := resp.Decoded
			for turn := 0; turn < 4; turn++ {
				cursor, callTok := findTokens(body)
				if cursor == "" {
					break
				}
				var in []byte
				if c.Where == "exchange" {
					b := lib.Int64Batch(lib.InSchema, int64(turn+1))
					in = lib.EncodeStream(lib.InSchema, lib.WithMeta(b, []string{lib.KStreamState, lib.KCallState}, []string{cursor, callTok}))
				} else {
					in = lib.TickWithTokens(cursor, callTok)
				}
				r2 := lib.PostArrow(h, "/"+call.Method+"/exchange", in, nil)
				if r2.Panic != "" {
					out.Violate("C05/http-panic", "ServeHTTP panicked on continuation: %s", lib.Short(r2.Panic, 300))
					return nil
				}
				body = r2.Decoded
				bodies = append(bodies, body)
			}
		}
	}
	var errs []lib.BatchM
	for _, body := range bodies {
		streams, err := lib.SplitStreams(body)
		if err != nil {
			out.Violate("C05/body-not-ipc", "response does not decode: %v", err)
			return nil
		}
		for _, st := range streams {
			for _, b := range st.Batches {
				if b.Kind() == "error" {
					errs = append(errs, b)
				}
			}
		}
	}
	return errs
}

var callTokenMemo string

// plainRefusal: the last collectErrors met a refusal without an Arrow body.
var plainRefusal bool

func findTokens(body []byte) (cursor, callTok string) {
	streams, _ := lib.SplitStreams(body)
	for _, st := range streams {
		for _, b := range st.Batches {
			if v, ok := b.Get(lib.KCallState); ok && v != "" {
				callTokenMemo = v
			}
			if v, ok := b.Get(lib.KStreamState); ok && v != "" {
				cursor = v
			}
		}
	}
	return cursor, callTokenMemo
}

func goTypeLooking(s string) bool {
	return strings.HasPrefix(s, "*") || strings.Contains(s, "errors.") || strings.Contains(s, "fmt.") || strings.Contains(s, "vgirpc.") || strings.Contains(s, "lib.")
}

func runC05(c c05Case) (out lib.Outcome) {
	lib.ResetEvents()
	callTokenMemo = ""
	plainRefusal = false
	out.Label("where:"+c.Where, "transport:"+c.Transport)
	if c.Framework != "" {
		out.Label("fw:" + c.Framework)
	}
	if c.Err != nil {
		out.Label("err:" + c.Err.Kind)
		if c.Err.TB != "" && (c.Err.Kind == "rpc" || c.Err.Kind == "wrapped_rpc" || c.Err.Kind == "panic_rpc") {
			out.Label("err:carries-own-traceback")
		}
	}
	out.NonTrivial = c.Err == nil || c.Err.Kind != "rpc"
	errs := c.collectErrors(&out)
	if len(out.Violations) > 0 {
		return
	}
	if plainRefusal {
		// the HTTP layer answered without an Arrow body: no exception batch to judge
		out.Label("plain-refusal:" + c.Framework)
		return
	}
	if len(errs) != 1 {
		out.Violate(lib.Keyf("C05", "exception-count", c.Where, c.Framework), "expected exactly one exception batch, got %d", len(errs))
		return
	}
	info, err := lib.DecodeError(errs[0])
	if err != nil {
		out.Violate("C05/envelope-malformed", "%v", err)
		return
	}
	// --- exception_type ---
	if c.Err != nil {
		want, alts := c.Err.ExpectedErrType()
		okType := info.Type == want
		for _, a := range alts {
			okType = okType || info.Type == a
		}
		if !okType {
			key := lib.Keyf("C05", "exception-type", c.Err.Kind)
			if goTypeLooking(info.Type) {
				key = "C05/go-type-name-on-wire"
			}
			out.Violate(key, "%s error produced in %s over %s has exception_type %q, expected %q%v", c.Err.Kind, c.Where, c.Transport, info.Type, want, alts)
		}
	} else {
		want := map[string]string{"unknown_method": "AttributeError", "version_mismatch": "ProtocolVersionError", "bad_params": "TypeError",
			"session_lost": "SessionLostError", "draining": "ServerDrainingError"}[c.Framework]
		if want != "" && info.Type != want {
			out.Violate(lib.Keyf("C05", "framework-type", c.Framework), "%s: exception_type %q, documented wire name %q", c.Framework, info.Type, want)
		}
		if goTypeLooking(info.Type) || info.Type == "" {
			out.Violate("C05/go-type-name-on-wire", "%s refusal has exception_type %q", c.Framework, info.Type)
		}
	}
	// --- message ---
	if c.Err != nil {
		if !strings.Contains(info.ExMessage, c.Err.ErrMessageContains()) || !strings.Contains(info.Message, c.Err.ErrMessageContains()) {
			out.Violate("C05/message", "messages %q / %q lack %q", lib.Short(info.ExMessage, 100), lib.Short(info.Message, 100), c.Err.ErrMessageContains())
		}
	}
	// --- error_kind ---
	switch {
	case c.Err != nil && c.Err.Kind == "rpc":
		if c.Err.ErrKind != "" && (!info.HasKind || info.Kind != c.Err.ErrKind) {
			out.Violate("C05/error-kind", "RpcError kind %q came out as %q (present=%v)", c.Err.ErrKind, info.Kind, info.HasKind)
		}
		if c.Err.ErrKind == "" && info.HasKind {
			out.Violate("C05/error-kind", "RpcError without a kind produced error_kind %q", info.Kind)
		}
	case c.Err != nil && (c.Err.Kind == "plain" || c.Err.Kind == "custom" || c.Err.IsPanic()):
		if info.HasKind {
			out.Violate("C05/error-kind", "%s error produced error_kind %q", c.Err.Kind, info.Kind)
		}
	case c.Framework == "version_mismatch":
		if info.Kind != "protocol_version_mismatch" {
			out.Violate("C05/error-kind", "version refusal has error_kind %q", info.Kind)
		}
	case c.Framework == "unknown_method":
		if info.Kind != "MethodNotImplementedError" {
			out.Violate("C05/error-kind", "unknown-method refusal has error_kind %q", info.Kind)
		}
	case c.Framework == "session_lost":
		if info.Kind != "session_lost" {
			out.Violate("C05/error-kind", "session-lost refusal has error_kind %q", info.Kind)
		}
	case c.Framework == "draining":
		if info.Kind != "server_draining" {
			out.Violate("C05/error-kind", "draining refusal has error_kind %q", info.Kind)
		}
	}
	// --- debug details ---
	hasDetails := info.Traceback != "" || len(info.Frames) > 0
	if !c.Debug && hasDetails {
		out.Violate("C05/traceback-without-debug", "traceback/frames present with debug errors off")
	}
	if c.Debug && !hasDetails {
		out.Violate("C05/no-traceback-with-debug", "debug errors on but no traceback/frames")
	}
	return
}

var propC05 = lib.Prop[c05Case]{
	ID: "C05",
	Rule: "one failing call per case: error values (RpcError with any Type/Kind incl. exotic Type strings, plain, %w-wrapped RpcError/plain to depth 3, errors.Join, RpcError values that already carry a Traceback (as one relayed from an upstream call does), custom error types, kind-advertising custom error, panics with string/error/int/RpcError/runtime-error values) returned from unary handlers, stream init, producer turns and exchange turns, plus framework refusals incl. those the HTTP layer writes itself (garbled continuation token, unknown / undecodable request coding, oversize body, wrong content type) (unknown method, protocol version, max_response_bytes, nil stream result, wrong state type, parameter mismatch, session lost, server draining as handed back by a unary / stream-init handler from ctx.OpenSession), debug on/off, pipe and HTTP (following continuations); " +
		"oracle: exception_type is the RpcError's Type, the documented wire name of a typed framework error, else RuntimeError — never a Go type name; message carried; error_kind iff advertised; traceback/frames iff debug. Non-trivial: the error is not a bare RpcError.",
	Gen:          genC05,
	Run:          runC05,
	Essential:    []string{"where:unary", "where:init", "where:produce", "where:exchange", "where:framework", "err:plain", "err:panic_str", "err:carries-own-traceback", "fw:max_response_bytes", "fw:session_lost", "fw:draining"},
	EssentialMin: 300,
}

func TestC05(t *testing.T) { lib.Check(t, propC05) }
