package g_disp

import (
	"context"
	"os"
	"testing"

	"github.com/Query-farm/vgi-rpc-go/vgirpc"

	"verifharness/lib"
)

var tokenKey = []byte("0123456789abcdef0123456789abcdef")

func newServer(serverID string, debug bool, version string) *vgirpc.Server {
	srv := vgirpc.NewServer()
	if serverID != "" {
		srv.SetServerID(serverID)
	}
	srv.SetDebugErrors(debug)
	if version != "" {
		srv.SetProtocolVersion(version)
	}
	lib.RegisterScripted(srv)
	// u_open / s_open: handlers that try to open a sticky session and hand back
	// whatever ctx.OpenSession answered (used for the draining refusal)
	vgirpc.Unary(srv, "u_open", func(_ context.Context, ctx *vgirpc.CallContext, p lib.ScriptParams) (string, error) {
		if err := ctx.OpenSession(&struct{}{}, 0); err != nil {
			return "", err
		}
		return "opened", nil
	})
	vgirpc.Producer(srv, "s_open", lib.OutSchema, func(_ context.Context, ctx *vgirpc.CallContext, p lib.ScriptParams) (*vgirpc.StreamResult, error) {
		if err := ctx.OpenSession(&struct{}{}, 0); err != nil {
			return nil, err
		}
		return nil, &vgirpc.RpcError{Type: "RuntimeError", Message: "session opened although the server is draining"}
	})
	return srv
}

func newHTTP(srv *vgirpc.Server) *vgirpc.HttpServer {
	h, err := vgirpc.NewHttpServerWithKey(srv, tokenKey)
	if err != nil {
		panic(err)
	}
	return h
}

func TestMain(m *testing.M) {
	os.Exit(m.Run())
}
