package g_disp

import (
	"os"
	"testing"

	"github.com/Query-farm/vgi-rpc-go/vgirpc"

	"verifharness/lib"
)

var tokenKey = []byte("0123456789abcdef0123456789abcdef")

func newServer(serverID string, debug bool, version string) *vgirpc.Server {
	srv := vgirpc.NewServer()
	if serverID != "" {
		srv.SetServerID(serverID)
	}
	srv.SetDebugErrors(debug)
	if version != "" {
		srv.SetProtocolVersion(version)
	}
	lib.RegisterScripted(srv)
	return srv
}

func newHTTP(srv *vgirpc.Server) *vgirpc.HttpServer {
	h, err := vgirpc.NewHttpServerWithKey(srv, tokenKey)
	if err != nil {
		panic(err)
	}
	return h
}

func TestMain(m *testing.M) {
	os.Exit(m.Run())
}
