package g_disp

import (
	"context"
	"fmt"
	"net/http"
	"reflect"
	"strings"
	"sync"
	"testing"

	"github.com/Query-farm/vgi-rpc-go/vgirpc"
	"github.com/apache/arrow-go/v18/arrow"
	"pgregory.net/rapid"

	"verifharness/lib"
)

// C37 — dispatch hooks see exactly one start and one end per dispatched call.

type c37Case struct {
	Transport string         `json:"transport"` // pipe | http
	Calls     []lib.CallSpec `json:"calls"`
	Panics    []string       `json:"panics"` // per call: "" | start | end
	Version   string         `json:"version,omitempty"`
	Limit     int            `json:"limit"`
}

type hookEvent struct {
	Kind   string // start | end
	Call   string // request id ("" on HTTP continuations)
	Token  int
	HasErr bool
	Method string
}

type recHook struct {
	mu      sync.Mutex
	events  []hookEvent
	next    int
	panicOn func(kind, call string) bool
	current func() string
}

func (h *recHook) OnDispatchStart(ctx context.Context, info vgirpc.DispatchInfo) (context.Context, vgirpc.HookToken) {
	call := info.RequestID
	if h.current != nil {
		call = h.current()
	}
	if h.panicOn != nil && h.panicOn("start", call) {
		panic("hook start panic")
	}
	h.mu.Lock()
	defer h.mu.Unlock()
	h.next++
	h.events = append(h.events, hookEvent{Kind: "start", Call: call, Token: h.next, Method: info.Method})
	if h.panicOn != nil {
		switch {
		case h.panicOn("nilctx", call):
			// a start that returns normally without a context of its own
			return nil, h.next
		case h.panicOn("derived", call):
			type hookKey struct{}
			return context.WithValue(ctx, hookKey{}, h.next), h.next
		}
	}
	return ctx, h.next
}

func (h *recHook) OnDispatchEnd(ctx context.Context, token vgirpc.HookToken, info vgirpc.DispatchInfo, stats *vgirpc.CallStatistics, err error) {
	call := info.RequestID
	if h.current != nil {
		call = h.current()
	}
	tk, _ := token.(int)
	h.mu.Lock()
	h.events = append(h.events, hookEvent{Kind: "end", Call: call, Token: tk, HasErr: err != nil, Method: info.Method})
	h.mu.Unlock()
	if h.panicOn != nil && h.panicOn("end", call) {
		panic("hook end panic")
	}
}

// ungobState is deliberately not registered with gob: sealing it into a token fails.
type ungobState struct {
	Ch chan int
	n  int
}

func (s *ungobState) Exchange(ctx context.Context, in arrow.RecordBatch, out *vgirpc.OutputCollector, cc *vgirpc.CallContext) error {
	return out.Emit(lib.MakeOut(lib.OutSchema, 1, 1, 0))
}
func (s *ungobState) Produce(ctx context.Context, out *vgirpc.OutputCollector, cc *vgirpc.CallContext) error {
	s.n++
	if s.n > 3 {
		return out.Finish()
	}
	return out.Emit(lib.MakeOut(lib.OutSchema, 1, 1, 0))
}

func c37Server(version string, hook vgirpc.DispatchHook) *vgirpc.Server {
	srv := newServer("srv", false, version)
	vgirpc.Exchange(srv, "s_ungob_x", lib.OutSchema, lib.InSchema, func(context.Context, *vgirpc.CallContext, lib.ScriptParams) (*vgirpc.StreamResult, error) {
		return &vgirpc.StreamResult{OutputSchema: lib.OutSchema, State: &ungobState{}, InputSchema: lib.InSchema}, nil
	})
	vgirpc.Producer(srv, "s_ungob_p", lib.OutSchema, func(context.Context, *vgirpc.CallContext, lib.ScriptParams) (*vgirpc.StreamResult, error) {
		return &vgirpc.StreamResult{OutputSchema: lib.OutSchema, State: &ungobState{}}, nil
	})
	if hook != nil {
		srv.SetDispatchHook(hook)
	}
	return srv
}

func genC37(t *rapid.T) c37Case {
	c := c37Case{Transport: []string{"pipe", "http"}[rapid.IntRange(0, 1).Draw(t, "transport")], Limit: rapid.IntRange(0, 2).Draw(t, "limit")}
	if rapid.IntRange(0, 3).Draw(t, "versioned") == 0 {
		c.Version = "2.3.4"
	}
	n := rapid.IntRange(1, 6).Draw(t, "ncalls")
	for i := 0; i < n; i++ {
		call := lib.GenCall(t, lib.CallID(i))
		if c.Transport == "http" {
			for call.Kind != "unary" && call.Kind != "stream" && call.Kind != "unknown" && call.Kind != "describe" {
				call = lib.GenCall(t, lib.CallID(i))
			}
			if call.Kind == "stream" && rapid.IntRange(0, 5).Draw(t, "ungob") == 0 {
				call.Method = []string{"s_ungob_x", "s_ungob_p"}[rapid.IntRange(0, 1).Draw(t, "ungobk")]
				call.BadParams = ""
				call.Stream.InitOutcome = "ok"
				call.Inputs = []lib.InputSpec{{Vals: []int64{1}}}
			}
		}
		call.Opts.RequestID = fmt.Sprintf("call-%d", i)
		if c.Version != "" && rapid.IntRange(0, 4).Draw(t, "cver") != 0 {
			v := []string{"2.3.4", "2.3.9", "9.9.9"}[rapid.IntRange(0, 2).Draw(t, "cverv")]
			call.Opts.ProtocolVersion = &v
		}
		c.Calls = append(c.Calls, call)
		c.Panics = append(c.Panics, []string{"", "", "", "start", "end", "nilctx", "derived"}[rapid.IntRange(0, 6).Draw(t, "panic")])
	}
	return c
}

// httpExchange is one HTTP request/response pair of a call.
type httpExchange struct {
	Call    int
	Status  int
	RPCErr  bool
	Summary []string
	HasExc  bool
}

func summarize(streams []lib.StreamM) (out []string, hasExc bool) {
	for _, st := range streams {
		for _, b := range st.Batches {
			switch b.Kind() {
			case "error":
				info, _ := lib.DecodeError(b)
				out = append(out, "error:"+info.Type+":"+info.ExMessage)
				hasExc = true
			case "log":
				m, _ := b.Get(lib.KLogMessage)
				out = append(out, "log:"+m)
			case "token":
				out = append(out, "token")
			default:
				out = append(out, fmt.Sprintf("data:%v", lib.Rows(b.Rec)))
			}
		}
	}
	return
}

// runHTTP plays every call over HTTP, one request at a time.
func (c c37Case) runHTTP(h http.Handler, setCurrent func(string), out *lib.Outcome) []httpExchange {
	var xs []httpExchange
	post := func(i int, path string, body []byte) (lib.HTTPTurn, bool) {
		resp := lib.PostArrow(h, path, body, nil)
		if resp.Panic != "" {
			out.Violate("C37/http-panic", "request for call %d panicked: %s", i, lib.Short(resp.Panic, 200))
			return lib.HTTPTurn{}, false
		}
		streams, _ := lib.SplitStreams(resp.Decoded)
		sum, exc := summarize(streams)
		xs = append(xs, httpExchange{Call: i, Status: resp.Status, RPCErr: resp.IsRPCError(), Summary: sum, HasExc: exc})
		t := lib.HTTPTurn{Resp: resp, Streams: streams}
		for _, st := range streams {
			for _, b := range st.Batches {
				if vs := b.All(lib.KStreamState); len(vs) > 0 {
					t.Cursor = vs[len(vs)-1]
				}
				if vs := b.All(lib.KCallState); len(vs) > 0 {
					t.CallToken = vs[len(vs)-1]
				}
			}
		}
		return t, true
	}
	for i, call := range c.Calls {
		setCurrent(fmt.Sprintf("call-%d", i))
		req, _ := call.PipeBytes()
		switch call.Kind {
		case "unary":
			if _, ok := post(i, "/"+call.Method, req); !ok {
				return xs
			}
		case "unknown":
			if _, ok := post(i, "/no_such_method", req); !ok {
				return xs
			}
		case "describe":
			if _, ok := post(i, "/__describe__", req); !ok {
				return xs
			}
		case "stream":
			t, ok := post(i, "/"+call.Method+"/init", req)
			if !ok {
				return xs
			}
			exchange := call.ConcreteKind() == "exchange" || call.Method == "s_ungob_x"
			idx := 0
			for n := 0; t.Cursor != "" && t.Resp.Status == 200 && n < 12; n++ {
				var in arrow.RecordBatch
				if exchange {
					if idx >= len(call.Inputs) {
						break
					}
					in = call.Inputs[idx].Batch()
					idx++
				}
				callTok := t.CallToken
				if callTok == "" {
					callTok = lastCallToken
				} else {
					lastCallToken = callTok
				}
				t, ok = post(i, "/"+call.Method+"/exchange", lib.ContinuationBody(in, t.Cursor, callTok, nil))
				if !ok {
					return xs
				}
			}
		}
	}
	return xs
}

var lastCallToken string

func runC37(c c37Case) (out lib.Outcome) {
	out.Label("transport:" + c.Transport)
	panicFor := map[string]string{}
	anyPanic, anyFail := false, false
	for i, p := range c.Panics {
		panicFor[fmt.Sprintf("call-%d", i)] = p
		if p == "nilctx" || p == "derived" {
			out.Label("hook-start-ctx:" + p)
		} else if p != "" {
			anyPanic = true
			out.Label("hook-panic:" + p)
		}
	}
	current := ""
	mkHook := func() *recHook {
		h := &recHook{panicOn: func(kind, call string) bool { return panicFor[call] == kind }}
		if c.Transport == "http" {
			h.current = func() string { return current }
		}
		return h
	}
	if c.Transport == "pipe" {
		var input []byte
		for _, call := range c.Calls {
			req, in := call.PipeBytes()
			input = append(append(input, req...), in...)
		}
		lib.ResetEvents()
		plain := lib.RunPipe(c37Server(c.Version, nil), input)
		hook := mkHook()
		lib.ResetEvents()
		hooked := lib.RunPipe(c37Server(c.Version, hook), input)
		if plain.Panic != "" || hooked.Panic != "" || plain.DecodeErr != nil || hooked.DecodeErr != nil {
			out.Violate("C37/pipe-broken", "plain panic=%q hooked panic=%q decode %v/%v", lib.Short(plain.Panic, 100), lib.Short(hooked.Panic, 100), plain.DecodeErr, hooked.DecodeErr)
			return
		}
		if d := lib.StreamsDiff(plain.Streams, hooked.Streams); d != "" {
			out.Violate("C37/hook-changes-responses", "responses differ with the hook installed: %s", d)
			return
		}
		// group response streams per call (framing is C02's business; here use the model's counts)
		pos := 0
		for i, call := range c.Calls {
			n := call.ExpectedStreams()
			if (call.Kind == "unary" || call.Kind == "stream") && c.Version != "" && (call.Opts.ProtocolVersion == nil || !strings.HasPrefix(*call.Opts.ProtocolVersion, "2.3.")) {
				n = 1
			}
			if pos+n > len(hooked.Streams) {
				out.Violate("C37/pipe-framing", "fewer response streams than the model expects")
				return
			}
			_, hasExc := summarize(hooked.Streams[pos : pos+n])
			pos += n
			if hasExc {
				anyFail = true
			}
			c.judge(&out, hook, fmt.Sprintf("call-%d", i), call, hasExc, i)
		}
	} else {
		lib.ResetEvents()
		lastCallToken = ""
		hp := newHTTP(c37Server(c.Version, nil))
		hp.SetProducerBatchLimit(c.Limit)
		plain := c.runHTTP(hp, func(s string) {}, &out)
		hook := mkHook()
		lib.ResetEvents()
		lastCallToken = ""
		hh := newHTTP(c37Server(c.Version, hook))
		hh.SetProducerBatchLimit(c.Limit)
		// every HTTP request is its own dispatch: give each a distinct id
		reqNo := 0
		var reqCall []int
		hooked := c.runHTTPTagged(hh, func(callIdx int) {
			current = fmt.Sprintf("req-%d", reqNo)
			panicFor[current] = c.Panics[callIdx]
			reqCall = append(reqCall, callIdx)
			reqNo++
		}, &out)
		if len(out.Violations) > 0 {
			return
		}
		if len(plain) != len(hooked) {
			out.Violate("C37/hook-changes-responses", "%d HTTP exchanges without the hook, %d with it", len(plain), len(hooked))
			return
		}
		for i := range plain {
			if plain[i].Status != hooked[i].Status || plain[i].RPCErr != hooked[i].RPCErr || !reflect.DeepEqual(plain[i].Summary, hooked[i].Summary) {
				out.Violate("C37/hook-changes-responses", "exchange %d (call %d) differs with the hook installed: %d %v vs %d %v", i, plain[i].Call, plain[i].Status, plain[i].Summary, hooked[i].Status, hooked[i].Summary)
				return
			}
		}
		for i, x := range hooked {
			failed := x.HasExc || x.Status >= 400 || x.RPCErr
			if failed {
				anyFail = true
			}
			c.judge(&out, hook, fmt.Sprintf("req-%d", i), c.Calls[x.Call], failed, x.Call)
		}
	}
	out.NonTrivial = len(c.Calls) >= 3 && (anyFail || anyPanic)
	if anyFail {
		out.Label("failing-call")
	}
	return
}

// runHTTPTagged is runHTTP with a callback before every single request.
func (c c37Case) runHTTPTagged(h http.Handler, before func(callIdx int), out *lib.Outcome) []httpExchange {
	wrapped := http.HandlerFunc(func(w http.ResponseWriter, r *http.Request) {
		before(currentCallIdx)
		h.ServeHTTP(w, r)
	})
	return c.runHTTP(wrapped, func(s string) {
		fmt.Sscanf(s, "call-%d", &currentCallIdx)
	}, out)
}

var currentCallIdx int

// judge checks the hook events recorded under id against the response.
func (c c37Case) judge(out *lib.Outcome, hook *recHook, id string, call lib.CallSpec, responseFailed bool, callIdx int) {
	hook.mu.Lock()
	var starts, ends []hookEvent
	for _, e := range hook.events {
		if e.Call == id {
			if e.Kind == "start" {
				starts = append(starts, e)
			} else {
				ends = append(ends, e)
			}
		}
	}
	hook.mu.Unlock()
	mode := c.Panics[callIdx]
	site := call.Kind
	if call.Kind == "stream" {
		site = "stream-" + call.Method
	}
	if len(starts) > 1 {
		out.Violate("C37/multiple-starts", "%s (%s): %d starts", id, site, len(starts))
		return
	}
	if mode == "start" {
		// start panicked: it did not return normally, so no end is owed; an end must not appear with a foreign token
		if len(ends) > 0 {
			out.Violate("C37/end-after-panicking-start", "%s (%s): end ran although start panicked", id, site)
		}
		return
	}
	if len(starts) == 0 {
		if len(ends) != 0 {
			out.Violate("C37/end-without-start", "%s (%s): %d ends without a start", id, site, len(ends))
		}
		// the statement binds only hooks whose start returned: a request the
		// server answers before starting the hook owes nothing
		return
	}
	// coverage guard: the clauses below only bite when a start was observed
	kind := call.Kind
	if kind == "stream" {
		kind = "stream"
	}
	out.Label("start-seen:" + c.Transport + ":" + kind)
	if len(ends) != 1 {
		out.Violate(lib.Keyf("C37", "end-count", c.Transport, site), "%s (%s): start returned but %d ends ran", id, site, len(ends))
		return
	}
	if ends[0].Token != starts[0].Token {
		out.Violate("C37/end-token", "%s: end received token %d, start returned %d", id, ends[0].Token, starts[0].Token)
	}
	if c.dispatched(call) && ends[0].HasErr != responseFailed {
		out.Violate(lib.Keyf("C37", "end-error-mismatch", c.Transport, site, fmt.Sprintf("response-failed=%v", responseFailed)),
			"%s (%s %s): the response reports failure=%v but the hook's end received err!=nil=%v", id, site, call.Method, responseFailed, ends[0].HasErr)
	}
}

// dispatched implements the property's definition for the scripted calls.
func (c c37Case) dispatched(call lib.CallSpec) bool {
	if call.Kind != "unary" && call.Kind != "stream" {
		return false
	}
	if c.Version != "" && (call.Opts.ProtocolVersion == nil || !strings.HasPrefix(*call.Opts.ProtocolVersion, "2.3.")) {
		return false
	}
	return true
}

var propC37 = lib.Prop[c37Case]{
	ID: "C37",
	Rule: "histories of 1-6 scripted calls (every unary/stream outcome, bad parameters, protocol-version refusals, unknown methods, describe; over HTTP also streams whose state cannot be sealed into a token) on a pipe or over HTTP (each init/continuation request is its own dispatch), with a recording hook that per call behaves normally or panics in start or in end. " +
		"Oracle: responses identical to the same history without a hook; per dispatch at most one start; a start that returned has exactly one end with its token; for dispatched calls end's err != nil iff the response carries an exception / error status. Non-trivial: >=3 calls with a failing call or a panicking hook.",
	Gen:          genC37,
	Run:          runC37,
	Essential:    []string{"transport:pipe", "transport:http", "hook-panic:start", "hook-panic:end", "hook-start-ctx:nilctx", "hook-start-ctx:derived", "failing-call",
		"start-seen:pipe:unary", "start-seen:pipe:stream", "start-seen:http:unary", "start-seen:http:stream"},
	EssentialMin: 200,
}

func TestC37(t *testing.T) { lib.Check(t, propC37) }
