package g_disp

import (
	"reflect"
	"strings"
	"testing"

	"pgregory.net/rapid"

	"verifharness/lib"
)

// C06 — pipe streams obey the lockstep contract.

type c06Case struct {
	Call lib.CallSpec `json:"call"`
}

func genC06(t *rapid.T) c06Case {
	c := lib.GenStreamCall(t, lib.CallID(0))
	c.BadParams = ""
	c.Stream.InitOutcome = "ok"
	c.Stream.InitErr = nil
	// longer scripts: prepend plain emits so failures and cancels land strictly inside the stream
	for len(c.Stream.Turns) < 5 && rapid.IntRange(0, 2).Draw(t, "moreturns") != 0 {
		c.Stream.Turns = append([]lib.TurnSpec{{Act: "emit", Rows: rapid.IntRange(1, 2).Draw(t, "mrows")}}, c.Stream.Turns...)
	}
	if c.ConcreteKind() == "producer" {
		if c.Ticks < len(c.Stream.Turns) && rapid.Bool().Draw(t, "enoughticks") {
			c.Ticks = len(c.Stream.Turns) + 1
		}
	} else if len(c.Inputs) > 0 {
		for len(c.Inputs) < len(c.Stream.Turns) && rapid.Bool().Draw(t, "moreinputs") {
			c.Inputs = append(c.Inputs, lib.InputSpec{Type: c.Inputs[0].Type, Vals: []int64{int64(len(c.Inputs))}})
		}
	}
	if rapid.Bool().Draw(t, "rid?") {
		c.Opts.RequestID = "rid-" + lib.GenString(t, "rid")
	}
	if rapid.IntRange(0, 2).Draw(t, "ll?") == 0 {
		c.Opts.LogLevel = []string{"TRACE", "DEBUG", "INFO", "WARN", "ERROR", "EXCEPTION"}[rapid.IntRange(0, 5).Draw(t, "ll")]
	}
	return c06Case{Call: c}
}

func runC06(c c06Case) (out lib.Outcome) {
	lib.ResetEvents()
	call := c.Call
	exp, ok := lib.ModelPipe(call)
	if !ok {
		out.Skipped = true
		return
	}
	req, in := call.PipeBytes()
	res := lib.RunPipe(newServer("srv", false, ""), append(append([]byte{}, req...), in...))
	if res.Panic != "" {
		out.Violate("C06/panic-escaped", "panic escaped Serve: %s", lib.Short(res.Panic, 300))
		return
	}
	if res.DecodeErr != nil {
		out.Violate("C06/output-not-ipc", "output does not decode: %v", res.DecodeErr)
		return
	}
	out.Label("kind:" + call.ConcreteKind())
	turns := 0
	for _, e := range exp.Events {
		if e != "cancel" && !strings.HasPrefix(e, "init") {
			turns++
		}
	}
	cancelInside := false
	if call.ConcreteKind() == "producer" {
		cancelInside = call.CancelAt > 0 && call.CancelAt < call.Ticks-1
	} else {
		for i, in := range call.Inputs {
			if in.Cancel && i > 0 && i < len(call.Inputs)-1 {
				cancelInside = true
			}
		}
	}
	if exp.EndsErr {
		out.Label("ends-in-error")
	}
	if cancelInside {
		out.Label("cancel-inside")
	}
	if len(exp.Streams) == 2 {
		out.Label("header")
	}
	out.NonTrivial = turns >= 3 && (exp.EndsErr || cancelInside)
	lib.CompareToModel("C06", exp.Streams, res.Streams, &out)
	// exactly one exception batch iff the model says the stream ends in error
	nErr := 0
	for _, st := range res.Streams {
		for _, b := range st.Batches {
			if b.Kind() == "error" {
				nErr++
			}
		}
	}
	if want := map[bool]int{true: 1, false: 0}[exp.EndsErr]; nErr != want {
		out.Violate("C06/exception-count", "expected %d exception batches, got %d", want, nErr)
	}
	// state methods that ran
	var got []string
	for _, e := range lib.Events(call.Stream.ID) {
		if strings.HasPrefix(e, "input:") || strings.HasPrefix(e, "inmeta:") {
			continue
		}
		got = append(got, e)
	}
	if !reflect.DeepEqual(got, exp.Events) {
		out.Violate("C06/state-calls", "state methods ran %v, the contract predicts %v", got, exp.Events)
	}
	return
}

var propC06 = lib.Prop[c06Case]{
	ID: "C06",
	Rule: "one scripted producer/exchange/dynamic stream call per case on a pipe: turn scripts of 0-6 turns (emit with rows/metadata, finish, error/panic of every kind, no-emit, double emit, emit-then-error, Finish on an exchange), header or not, init logs vs requested level, inputs equal/castable/uncastable, cancel at any position, more or fewer ticks than turns; " +
		"oracle: a reference model of the lockstep contract predicts every batch (kind, values, logs, metadata) and the exact state-method call sequence. Non-trivial: >=3 executed turns and (a failing turn or a cancel strictly inside the stream).",
	Gen:          genC06,
	Run:          runC06,
	Essential:    []string{"kind:producer", "kind:exchange", "ends-in-error", "cancel-inside", "header"},
	EssentialMin: 300,
}

func TestC06(t *testing.T) { lib.Check(t, propC06) }
