package g_conc

import (
	"fmt"
	"os"
	"strconv"
	"strings"

	"verifharness/lib"
)

// The race detector writes its reports to stderr, or — with
// GORACE=log_path=<p> (set in registry.d for the schedule properties) — to
// the file <p>.<pid>. Reading that file after every case lets a report
// surface as a violation bound to the case that provoked it, instead of only
// failing the binary at exit (which run.py can only call "inconclusive").

// raceLog returns this process's report file and its current size; size -1
// means no log_path is configured (reports then only fail the binary).
func raceLog() (string, int64) {
	for _, f := range strings.Fields(os.Getenv("GORACE")) {
		if v, ok := strings.CutPrefix(f, "log_path="); ok {
			path := v + "." + strconv.Itoa(os.Getpid())
			st, err := os.Stat(path)
			if err != nil {
				return path, 0
			}
			return path, st.Size()
		}
	}
	return "", -1
}

// raceDelta turns report text that appeared since `before` into a violation.
func raceDelta(out *lib.Outcome, id string, before int64) {
	path, after := raceLog()
	if before < 0 || after <= before {
		return
	}
	data, _ := os.ReadFile(path)
	if int64(len(data)) > before {
		data = data[before:]
	}
	out.Violate(id+"/data-race", "the race detector reported during this case:\n%s", lib.Short(string(data), 3000))
}

// dumpRaceLog copies the report file into the worker log at the end of a test,
// so that "WARNING: DATA RACE" is visible to the driver even for a report that
// fell outside every case's window (the driver maps exit code 66 / that text
// to <id>/data-race).
func dumpRaceLog() {
	if path, sz := raceLog(); sz > 0 {
		data, _ := os.ReadFile(path)
		fmt.Printf("RACE-REPORT-FILE %s\n%s\n", path, data)
	}
}
