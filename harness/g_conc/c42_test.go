package g_conc

import (
	"fmt"
	"net"
	"os"
	"path/filepath"
	"sort"
	"strings"
	"sync"
	"sync/atomic"
	"testing"
	"time"

	"github.com/Query-farm/vgi-rpc-go/vgirpc"
	"github.com/apache/arrow-go/v18/arrow"
	"github.com/apache/arrow-go/v18/arrow/ipc"
	"pgregory.net/rapid"

	"verifharness/lib"
)

// C42 — socket listeners: independent connections, idle shutdown only when idle.
//
// A case is a connection schedule run against a real RunUnix and a real RunTcp
// listener (concurrently, same schedule): a first wave of overlapping
// connections with scripted calls tagged by connection, one "holder"
// connection that stays open and idle for more than twice the idle time-out
// after every other connection has closed, probe connections dialled during
// that idle period, and a second wave shortly after the holder closes. All
// times are recorded with the process's monotonic clock; the oracle is an
// invariant over the recorded history (see judgeC42), never a comparison of a
// duration against an expectation, except for the explicitly generous
// "returns at all" bound.

type c42Call struct {
	GapMs int  `json:"gap_ms"`         // pause before the call
	Fail  bool `json:"fail,omitempty"` // the scripted handler returns an error
	Logs  int  `json:"logs,omitempty"` // client-directed log lines before the result
	Pad   int  `json:"pad,omitempty"`  // extra bytes in the value
}

type c42Conn struct {
	OpenAtMs int       `json:"open_at_ms"` // relative to its phase start
	Calls    []c42Call `json:"calls"`
	LingerMs int       `json:"linger_ms,omitempty"` // stays open this long after its last call
	// Abrupt makes the connection end rudely after its calls (which may be none): "half" writes the first half of
	// a request's bytes and closes; "noread" writes a whole request and closes without reading the response.
	Abrupt string `json:"abrupt,omitempty"`
}

type c42Case struct {
	IdleMs  int     `json:"idle_ms"`
	Holder  c42Conn `json:"holder"`   // stays open; idle for 2*IdleMs+ExtraMs after wave 1 has closed
	ExtraMs int     `json:"extra_ms"` //
	// HookRefusals scripts the server's serve-start hook: its first HookRefusals invocations fail (a transient
	// start-up failure: the binding is not committed and the next connection re-fires the hook). One sacrificial
	// connection per refusal is dialled, sequentially, before the first wave; the server closes each unserved.
	HookRefusals int `json:"hook_refusals,omitempty"`
	// SilentHolder: the holder dials and sends nothing at all until the idle period is over (then one call, which
	// proves it had been accepted); first-wave connections are dialled only after the holder's connect returned.
	SilentHolder bool      `json:"silent_holder,omitempty"`
	Wave1        []c42Conn `json:"wave1"`        // overlap with the holder's calls
	ProbesPct    []int     `json:"probes_pct"`   // probe connections dialled this % of the idle time-out after wave 1 closed
	Wave2GapMs   int       `json:"wave2_gap_ms"` // second wave starts this long after the holder closed (well under the time-out)
	Wave2        []c42Conn `json:"wave2"`
	Transports   []string  `json:"transports"`
}

func genC42Conn(t *rapid.T, maxOpen, maxCalls int) c42Conn {
	c := c42Conn{OpenAtMs: rapid.IntRange(0, maxOpen).Draw(t, "open_at")}
	n := rapid.IntRange(1, maxCalls).Draw(t, "ncalls")
	for i := 0; i < n; i++ {
		c.Calls = append(c.Calls, c42Call{
			GapMs: rapid.IntRange(0, 25).Draw(t, "gap"),
			Fail:  rapid.IntRange(0, 5).Draw(t, "fail") == 0,
			Logs:  rapid.IntRange(0, 2).Draw(t, "logs"),
			Pad:   []int{0, 0, 7, 300, 70000}[rapid.IntRange(0, 4).Draw(t, "pad")],
		})
	}
	c.LingerMs = rapid.IntRange(0, 40).Draw(t, "linger")
	return c
}

func genC42(t *rapid.T) c42Case {
	c := c42Case{IdleMs: rapid.IntRange(100, 400).Draw(t, "idle_ms"), ExtraMs: rapid.IntRange(20, 120).Draw(t, "extra_ms")}
	c.Holder = genC42Conn(t, 20, 3)
	c.HookRefusals = []int{0, 0, 1, 1, 2}[rapid.IntRange(0, 4).Draw(t, "hook_refusals")]
	n1 := rapid.IntRange(0, 5).Draw(t, "nwave1")
	if c.HookRefusals > 0 && n1 == 0 {
		n1 = 1 // refusal + overlap + partial disconnect needs a first-wave connection
	}
	for i := 0; i < n1; i++ {
		w := genC42Conn(t, 60, 4)
		if rapid.IntRange(0, 3).Draw(t, "abrupt") == 0 {
			w.Abrupt = []string{"half", "noread"}[rapid.IntRange(0, 1).Draw(t, "abrupt_kind")]
			if rapid.Bool().Draw(t, "abrupt_nocalls") {
				w.Calls = nil // never served at all: only the broken request
			}
		}
		c.Wave1 = append(c.Wave1, w)
	}
	if rapid.IntRange(0, 3).Draw(t, "silent_holder") == 0 {
		c.SilentHolder = true
		c.Holder.Calls = nil
	}
	np := rapid.IntRange(1, 2).Draw(t, "nprobes")
	for i := 0; i < np; i++ {
		c.ProbesPct = append(c.ProbesPct, rapid.IntRange(105, 190).Draw(t, "probe_pct"))
	}
	n2 := rapid.IntRange(0, 2).Draw(t, "nwave2")
	c.Wave2GapMs = rapid.IntRange(0, c.IdleMs/4).Draw(t, "wave2_gap")
	for i := 0; i < n2; i++ {
		c.Wave2 = append(c.Wave2, genC42Conn(t, 15, 3))
	}
	c.Transports = [][]string{{"unix", "tcp"}, {"unix", "tcp"}, {"unix"}, {"tcp"}}[rapid.IntRange(0, 3).Draw(t, "transports")]
	return c
}

// ---------------------------------------------------------------- history

type c42CallRec struct {
	SendStart time.Time
	RespEnd   time.Time
	Err       string // transport-level failure ("" when a complete response stream was read)
	Problem   string // response is not this connection's modelled response
}

type c42ConnRec struct {
	Name       string
	DialStart  time.Time
	DialEnd    time.Time
	DialErr    string
	Calls      []c42CallRec
	CloseBegin time.Time
	CloseEnd   time.Time
	Abrupt     string // the rude ending performed ("" none)
	Silent     bool   // sent nothing before its hold
}

func (r *c42ConnRec) firstResp() (time.Time, bool) {
	for _, c := range r.Calls {
		if c.Err == "" {
			return c.RespEnd, true
		}
	}
	return time.Time{}, false
}

type c42Listener struct {
	transport   string
	network     string
	addr        string
	path        string
	idle        time.Duration
	bound       time.Time
	modeAtBound os.FileMode
	modeErr     string
	retCh       chan struct{}
	retAt       time.Time
	retErr      error
	hookCalls   atomic.Int64 // serve-start hook invocations
	hookFails   atomic.Int64

	mu    sync.Mutex
	conns []*c42ConnRec
	modes []string // socket modes observed while connections were open

	holderDialed chan struct{} // closed once the holder's connect has returned
	dialedOnce   sync.Once
}

func c42Tag(conn string, i int, pad int) string {
	return fmt.Sprintf("val:%s:%d:%s", conn, i, strings.Repeat("x", pad))
}

func readResponse(conn net.Conn) ([]lib.BatchM, error) {
	rd, err := ipc.NewReader(conn, ipc.WithAllocator(lib.Mem))
	if err != nil {
		return nil, err
	}
	defer rd.Release()
	var out []lib.BatchM
	for rd.Next() {
		rec := rd.RecordBatch()
		rec.Retain()
		bm := lib.BatchM{Rec: rec}
		if wm, ok := rec.(arrow.RecordBatchWithMetadata); ok {
			bm.Meta = wm.Metadata()
		}
		out = append(out, bm)
	}
	if err := rd.Err(); err != nil {
		return out, err
	}
	return out, nil
}

// checkResponse compares a response with the model of the scripted call.
func checkResponse(bs []lib.BatchM, name string, i int, call c42Call) string {
	rid := fmt.Sprintf("rid:%s:%d", name, i)
	want := c42Tag(name, i, call.Pad)
	var logs []string
	var last *lib.BatchM
	for k := range bs {
		b := bs[k]
		if got, ok := b.Get(lib.KRequestID); ok && got != rid {
			return fmt.Sprintf("batch %d carries request_id %q, want %q", k, got, rid)
		}
		if b.Kind() == "log" {
			m, _ := b.Get(lib.KLogMessage)
			logs = append(logs, m)
			continue
		}
		if last != nil {
			return fmt.Sprintf("more than one result batch (%d batches)", len(bs))
		}
		last = &bs[k]
	}
	if len(logs) != call.Logs {
		return fmt.Sprintf("%d log batches, want %d", len(logs), call.Logs)
	}
	for k, m := range logs {
		if w := fmt.Sprintf("log:%s:%d:%d", name, i, k); m != w {
			return fmt.Sprintf("log %d is %q, want %q", k, lib.Short(m, 80), w)
		}
	}
	if last == nil {
		return "no result batch"
	}
	if call.Fail {
		if last.Kind() != "error" {
			return "expected an EXCEPTION batch, got " + last.Kind()
		}
		if m, _ := last.Get(lib.KLogMessage); !strings.Contains(m, "err:"+want) {
			return fmt.Sprintf("error message %q does not carry this call's tag", lib.Short(m, 100))
		}
		return ""
	}
	if last.Kind() != "data" || last.Rec.NumRows() != 1 || last.Rec.NumCols() != 1 {
		return fmt.Sprintf("expected one data row, got kind %s rows %d", last.Kind(), last.Rec.NumRows())
	}
	if v, _ := lib.Value(last.Rec.Column(0), 0).(string); v != want {
		return fmt.Sprintf("value %q, want %q", lib.Short(v, 60), lib.Short(want, 60))
	}
	return ""
}

const c42IOTimeout = 20 * time.Second

// runConn dials, runs the scripted calls, lingers, then (after hold returns) closes.
func (l *c42Listener) runConn(name string, spec c42Conn, phaseStart time.Time, hold func(), finalCall bool) *c42ConnRec {
	rec := &c42ConnRec{Name: name}
	l.mu.Lock()
	l.conns = append(l.conns, rec)
	l.mu.Unlock()
	if d := time.Until(phaseStart.Add(time.Duration(spec.OpenAtMs) * time.Millisecond)); d > 0 {
		time.Sleep(d)
	}
	rec.DialStart = time.Now()
	conn, err := net.DialTimeout(l.network, l.addr, 5*time.Second)
	rec.DialEnd = time.Now()
	if strings.HasSuffix(name, "-holder") {
		l.dialedOnce.Do(func() { close(l.holderDialed) })
	}
	if err != nil {
		rec.DialErr = err.Error()
		return rec
	}
	rec.Silent = finalCall && len(spec.Calls) == 0
	calls := append([]c42Call{}, spec.Calls...)
	doCall := func(i int, call c42Call) bool {
		time.Sleep(time.Duration(call.GapMs) * time.Millisecond)
		us := lib.UnaryScript{Outcome: "value", Value: c42Tag(name, i, call.Pad)}
		for k := 0; k < call.Logs; k++ {
			us.Logs = append(us.Logs, lib.LogSpec{Level: "INFO", Msg: fmt.Sprintf("log:%s:%d:%d", name, i, k)})
		}
		if call.Fail {
			us.Outcome = "error"
			us.Err = &lib.ErrSpec{Kind: "rpc", Type: "ValueError", Msg: "err:" + us.Value}
		}
		req := lib.BuildRequest("u_str", lib.ScriptBatch(us.JSON()), lib.ReqOpts{RequestID: fmt.Sprintf("rid:%s:%d", name, i)})
		cr := c42CallRec{SendStart: time.Now()}
		_ = conn.SetDeadline(time.Now().Add(c42IOTimeout))
		if _, err := conn.Write(req); err != nil {
			cr.Err, cr.RespEnd = "write: "+err.Error(), time.Now()
			rec.Calls = append(rec.Calls, cr)
			return false
		}
		bs, err := readResponse(conn)
		cr.RespEnd = time.Now()
		if err != nil || len(bs) == 0 {
			cr.Err = fmt.Sprintf("read: %v (%d batches)", err, len(bs))
			rec.Calls = append(rec.Calls, cr)
			return false
		}
		cr.Problem = checkResponse(bs, name, i, call)
		rec.Calls = append(rec.Calls, cr)
		return true
	}
	ok := true
	for i, call := range calls {
		if ok = doCall(i, call); !ok {
			break
		}
	}
	if ok {
		time.Sleep(time.Duration(spec.LingerMs) * time.Millisecond)
		if l.path != "" {
			if st, err := os.Stat(l.path); err == nil {
				l.mu.Lock()
				l.modes = append(l.modes, fmt.Sprintf("%s:%04o:%v", name, st.Mode().Perm(), st.Mode()&os.ModeSocket != 0))
				l.mu.Unlock()
			}
		}
		if hold != nil {
			hold()
		}
		if finalCall {
			doCall(len(calls), c42Call{})
		}
		if spec.Abrupt != "" {
			req := lib.BuildRequest("u_str", lib.ScriptBatch(lib.UnaryScript{Outcome: "value", Value: "abrupt:" + name}.JSON()), lib.ReqOpts{RequestID: "rid:abrupt:" + name})
			if spec.Abrupt == "half" {
				req = req[:len(req)/2]
			}
			_ = conn.SetDeadline(time.Now().Add(c42IOTimeout))
			if _, err := conn.Write(req); err == nil {
				rec.Abrupt = spec.Abrupt
			}
		}
	}
	rec.CloseBegin = time.Now()
	_ = conn.Close()
	rec.CloseEnd = time.Now()
	return rec
}

func startListener(transport string, idle time.Duration, hookRefusals int) (*c42Listener, error) {
	l := &c42Listener{transport: transport, idle: idle, retCh: make(chan struct{}), holderDialed: make(chan struct{})}
	srv := vgirpc.NewServer()
	srv.SetServerID("c42-" + transport)
	lib.RegisterScripted(srv)
	srv.SetServeStartHook(func(vgirpc.TransportKind, map[string]bool) error {
		if l.hookCalls.Add(1) <= int64(hookRefusals) {
			l.hookFails.Add(1)
			return fmt.Errorf("c42: scripted transient start-up failure")
		}
		return nil
	})
	boundCh := make(chan struct{})
	var once sync.Once
	switch transport {
	case "unix":
		dir, err := os.MkdirTemp("", "c42")
		if err != nil {
			return nil, err
		}
		l.path = filepath.Join(dir, "s.sock")
		l.network, l.addr = "unix", l.path
		go func() {
			err := srv.RunUnix(l.path, idle, func(p string) {
				if st, serr := os.Stat(p); serr != nil {
					l.modeErr = serr.Error()
				} else {
					l.modeAtBound = st.Mode()
				}
				l.bound = time.Now()
				once.Do(func() { close(boundCh) })
			})
			l.retAt, l.retErr = time.Now(), err
			close(l.retCh)
			once.Do(func() { close(boundCh) })
		}()
	case "tcp":
		l.network = "tcp"
		go func() {
			err := srv.RunTcp("127.0.0.1", 0, idle, func(host string, port int) {
				l.addr = net.JoinHostPort(host, fmt.Sprint(port))
				l.bound = time.Now()
				once.Do(func() { close(boundCh) })
			})
			l.retAt, l.retErr = time.Now(), err
			close(l.retCh)
			once.Do(func() { close(boundCh) })
		}()
	}
	select {
	case <-boundCh:
	case <-time.After(10 * time.Second):
		return nil, fmt.Errorf("listener did not bind within 10s")
	}
	if l.bound.IsZero() {
		return nil, fmt.Errorf("listener returned before binding: %v", l.retErr)
	}
	return l, nil
}

const (
	c42Slack   = time.Second      // beyond time-out+slack the return is "late" (classification only)
	c42GiveUp  = 15 * time.Second // every harness connection is closed: the listener has nothing left to wait for but its own timer
	c42StartGr = 60 * time.Second
)

func runC42One(c c42Case, transport string, out *lib.Outcome) {
	idle := time.Duration(c.IdleMs) * time.Millisecond
	l, err := startListener(transport, idle, c.HookRefusals)
	if err != nil {
		out.Label("skipped:" + transport + "-listen")
		out.Skipped = true
		return
	}
	if l.path != "" {
		defer os.RemoveAll(filepath.Dir(l.path))
	}
	// sacrificial connections: each makes the serve-start hook fail once and is closed unserved by the server
	for i := 0; i < c.HookRefusals; i++ {
		l.runConn(fmt.Sprintf("%s-refused-%d", transport, i), c42Conn{Calls: []c42Call{{}}}, time.Now(), nil, false)
	}
	if int(l.hookFails.Load()) != c.HookRefusals {
		// a sacrificial dial did not reach the hook: the scripted refusals would leak into the waves
		out.Label("skipped:" + transport + "-refusals-not-consumed")
		out.Skipped = true
		return
	}
	start := time.Now()
	var wave1 sync.WaitGroup
	var all sync.WaitGroup
	for i, spec := range c.Wave1 {
		wave1.Add(1)
		all.Add(1)
		go func(i int, spec c42Conn) {
			defer all.Done()
			defer wave1.Done()
			phase := start
			if c.SilentHolder {
				// dial only after the silent holder's connect has returned: the accept queue is FIFO, so a
				// first-wave connection that gets served proves the holder had been accepted before it
				select {
				case <-l.holderDialed:
				case <-time.After(10 * time.Second):
				}
				phase = time.Now()
			}
			l.runConn(fmt.Sprintf("%s-w1-%d", transport, i), spec, phase, nil, false)
		}(i, spec)
	}
	var quietStart, quietEnd time.Time
	holderRec := l.runConn(transport+"-holder", c.Holder, start, func() {
		wave1.Wait()
		quietStart = time.Now()
		for i, pct := range c.ProbesPct {
			all.Add(1)
			go func(i, pct int) {
				defer all.Done()
				spec := c42Conn{OpenAtMs: c.IdleMs * pct / 100, Calls: []c42Call{{}, {Logs: 1}}}
				l.runConn(fmt.Sprintf("%s-probe-%d", transport, i), spec, quietStart, nil, false)
			}(i, pct)
		}
		time.Sleep(2*idle + time.Duration(c.ExtraMs)*time.Millisecond)
		quietEnd = time.Now()
	}, true)
	start2 := time.Now().Add(time.Duration(c.Wave2GapMs) * time.Millisecond)
	for i, spec := range c.Wave2 {
		all.Add(1)
		go func(i int, spec c42Conn) {
			defer all.Done()
			l.runConn(fmt.Sprintf("%s-w2-%d", transport, i), spec, start2, nil, false)
		}(i, spec)
	}
	all.Wait()
	allClosed := time.Now()
	returned := true
	select {
	case <-l.retCh:
	case <-time.After(idle + c42GiveUp):
		returned = false
	}
	l.mu.Lock()
	conns := append([]*c42ConnRec{}, l.conns...)
	modes := append([]string{}, l.modes...)
	l.mu.Unlock()
	judgeC42(c, transport, l, conns, modes, holderRec, quietStart, quietEnd, allClosed, returned, out)
}

type c42Span struct{ from, to time.Time }

func judgeC42(c c42Case, tr string, l *c42Listener, conns []*c42ConnRec, modes []string, holder *c42ConnRec, quietStart, quietEnd, allClosed time.Time, returned bool, out *lib.Outcome) {
	idle := l.idle
	rel := func(t time.Time) string {
		if t.IsZero() {
			return "-"
		}
		return fmt.Sprintf("%.1fms", float64(t.Sub(l.bound).Microseconds())/1000)
	}
	describe := func() string {
		var sb strings.Builder
		fmt.Fprintf(&sb, "idle=%v; ", idle)
		for _, r := range conns {
			fr, _ := r.firstResp()
			fmt.Fprintf(&sb, "%s dial[%s,%s]%s firstResp=%s calls=%d close=%s; ", r.Name, rel(r.DialStart), rel(r.DialEnd), r.DialErr, rel(fr), len(r.Calls), rel(r.CloseBegin))
		}
		if returned {
			fmt.Fprintf(&sb, "listener returned at %s", rel(l.retAt))
		} else {
			sb.WriteString("listener did not return")
		}
		return lib.Short(sb.String(), 1500)
	}

	// (a) every connection sees exactly its own modelled responses
	for _, r := range conns {
		for i, cr := range r.Calls {
			if cr.Problem != "" {
				out.Violate(lib.Keyf("C42", "foreign-or-wrong-response", tr), "connection %s call %d: %s", r.Name, i, cr.Problem)
			}
		}
	}

	// (b) when did the listener stop accepting? It was accepting at lo (the latest
	// dial start of a connection that was subsequently served) and had stopped by
	// hi (the earliest refused dial / broken fresh connection / function return).
	// At time t it must not stop if some connection was verifiably open within
	// [t-idle, t]: verified open = from its first complete response to the moment
	// the client began closing it. Before any connection has ever closed, nothing
	// can have armed the idle timer (start-up grace: at least the idle time-out).
	var cover []c42Span
	cover = append(cover, c42Span{l.bound, l.bound.Add(idle)})
	var lo, hi time.Time
	hiWhat := ""
	setHi := func(t time.Time, what string) {
		if hi.IsZero() || t.Before(hi) {
			hi, hiWhat = t, what
		}
	}
	var firstClose time.Time
	served, refused := 0, 0
	for _, r := range conns {
		if r.DialErr != "" {
			if strings.Contains(r.DialErr, "timeout") {
				out.Label("skipped:" + tr + "-dial-timeout")
				out.Skipped = true
				return
			}
			setHi(r.DialEnd, "dial of "+r.Name+" refused: "+r.DialErr)
			continue
		}
		for _, cr := range r.Calls {
			if strings.Contains(cr.Err, "timeout") {
				// the harness's own I/O deadline: says nothing about the listener
				out.Label("skipped:" + tr + "-io-timeout")
				out.Skipped = true
				return
			}
		}
		fr, ok := r.firstResp()
		// earliest instant at which the server can have seen this connection go away: for a served connection the
		// moment the client began closing it; an unserved one (refused by the serve-start hook) was closed by the
		// server at some unknown time after it was dialled
		closeLB := r.CloseBegin
		if !ok {
			closeLB = r.DialStart
		}
		if !closeLB.IsZero() && (firstClose.IsZero() || closeLB.Before(firstClose)) {
			firstClose = closeLB
		}
		if !ok {
			if strings.Contains(r.Name, "-refused-") {
				// expected: the scripted hook failure; it never counts as an open connection
				refused++
				continue
			}
			if len(r.Calls) > 0 {
				// dialled but never served: the listener was closed with this connection still in its backlog
				setHi(r.Calls[0].RespEnd, "fresh connection "+r.Name+" never served: "+r.Calls[0].Err)
			}
			continue
		}
		served++
		if r.DialStart.After(lo) {
			lo = r.DialStart
		}
		if r.Silent {
			// a connection dialled after the silent one's connect returned and then served was accepted after it
			// (FIFO accept queue): from that connection's first response on the silent one was verifiably open too
			for _, w := range conns {
				if fw, wok := w.firstResp(); wok && w != r && w.DialStart.After(r.DialEnd) && fw.Before(fr) {
					fr = fw
				}
			}
		}
		cover = append(cover, c42Span{fr, r.CloseBegin.Add(idle)})
		// a connection that broke after having been served
		for i, cr := range r.Calls {
			if cr.Err != "" && i > 0 {
				out.Violate(lib.Keyf("C42", "established-connection-broke", tr), "connection %s: call %d failed on an established connection: %s; %s", r.Name, i, cr.Err, describe())
			}
		}
	}
	if !firstClose.IsZero() {
		// nothing can arm the idle timer before the first connection closes
		grace := firstClose.Add(idle)
		if lim := l.bound.Add(c42StartGr - time.Second); grace.After(lim) {
			grace = lim
		}
		cover = append(cover, c42Span{l.bound, grace})
	}
	if returned {
		setHi(l.retAt, "the listener function returned")
	}
	if served == 0 {
		out.Label("skipped:" + tr + "-nothing-served")
		out.Skipped = true
		return
	}
	if !hi.IsZero() && !lo.After(hi) {
		sort.Slice(cover, func(i, j int) bool { return cover[i].from.Before(cover[j].from) })
		// is [lo,hi] inside the union of cover?
		reach := lo
		covered := false
		for _, s := range cover {
			if s.from.After(reach) {
				break
			}
			if s.to.After(reach) {
				reach = s.to
			}
			if !reach.Before(hi) {
				covered = true
				break
			}
		}
		if covered {
			open := ""
			for _, r := range conns {
				if fr, ok := r.firstResp(); ok && !fr.After(hi) && !r.CloseBegin.Before(hi) {
					open = r.Name
				}
			}
			if open != "" {
				out.Violate(lib.Keyf("C42", "stopped-while-connection-open", tr), "the %s listener stopped accepting between %s and %s (%s) although connection %s was open and served throughout; %s",
					tr, rel(lo), rel(hi), hiWhat, open, describe())
			} else {
				out.Violate(lib.Keyf("C42", "stopped-before-idle-timeout", tr), "the %s listener stopped between %s and %s (%s): at every instant of that interval a connection had been open within the preceding idle time-out %v; %s",
					tr, rel(lo), rel(hi), hiWhat, idle, describe())
			}
		}
	}

	// (c) the listener function does not return while a connection is still being served
	if returned {
		for _, r := range conns {
			for i, cr := range r.Calls {
				if cr.Err == "" && cr.SendStart.After(l.retAt) {
					out.Violate(lib.Keyf("C42", "returned-while-connection-open", tr), "the %s listener function returned at %s, yet connection %s sent call %d at %s and was answered; %s", tr, rel(l.retAt), r.Name, i, rel(cr.SendStart), describe())
				}
			}
		}
	}

	// (d) idle shutdown happens at all (generous bound; all harness connections are closed)
	if !returned {
		out.Violate(lib.Keyf("C42", "no-idle-shutdown", tr), "every connection was closed by %s, the %s listener (idle time-out %v) had not returned %v later; %s", rel(allClosed), tr, idle, idle+c42GiveUp, describe())
	} else if late := l.retAt.Sub(allClosed); late > idle+c42Slack {
		out.Label("late-return:" + tr)
	} else {
		out.Label("returned-in-time:" + tr)
	}

	// (e) Unix: owner-only socket while serving, path removed on return
	if tr == "unix" {
		if l.modeErr != "" {
			out.Violate("C42/unix-socket-missing-at-bound", "stat of the socket inside onBound failed: %s", l.modeErr)
		} else if l.modeAtBound.Perm()&0o077 != 0 || l.modeAtBound&os.ModeSocket == 0 {
			out.Violate("C42/unix-socket-mode", "socket mode when bound is %v, want an owner-only socket (no group/other bits)", l.modeAtBound)
		}
		for _, m := range modes {
			// "name:perm(octal):isSocket": owner-only means the last two octal digits are 0
			parts := strings.Split(m, ":")
			if len(parts) < 3 || !strings.HasSuffix(parts[len(parts)-2], "00") || parts[len(parts)-1] != "true" {
				out.Violate("C42/unix-socket-mode", "socket mode observed while a connection was open: %s, want an owner-only socket", m)
				break
			}
		}
		if returned {
			if _, err := os.Lstat(l.path); err == nil {
				out.Violate("C42/unix-socket-left-behind", "the socket path still exists after RunUnix returned")
			}
		}
	}

	// classification
	overlap := false
	for i, a := range conns {
		fa, ok := a.firstResp()
		if !ok {
			continue
		}
		for _, b := range conns[i+1:] {
			if fb, ok := b.firstResp(); ok && fa.Before(b.CloseBegin) && fb.Before(a.CloseBegin) {
				overlap = true
			}
		}
	}
	probed := false
	for _, r := range conns {
		if _, ok := r.firstResp(); ok && strings.Contains(r.Name, "-probe-") {
			probed = true
		}
	}
	fr, hok := holder.firstResp()
	heldIdle := hok && !quietStart.IsZero() && quietEnd.Sub(quietStart) > 2*idle && (holder.Silent || fr.Before(quietStart)) && len(holder.Calls) == len(c.Holder.Calls)+1 && holder.Calls[len(holder.Calls)-1].Err == ""
	if overlap {
		out.Label("overlap:" + tr)
	}
	if heldIdle {
		out.Label("held-idle-2x:" + tr)
	}
	if probed {
		out.Label("probe-served:" + tr)
	}
	if overlap && heldIdle {
		out.NonTrivial = true
	}
	// the refusal class: after a refused connection, the holder overlapped a first-wave connection that then left,
	// and the holder stayed open and idle for more than the time-out while a probe was dialled
	partial := false
	if hok {
		for _, r := range conns {
			if fb, ok := r.firstResp(); ok && strings.Contains(r.Name, "-w1-") && fb.Before(holder.CloseBegin) && fr.Before(r.CloseBegin) && r.CloseBegin.Before(quietStart) {
				partial = true
			}
		}
	}
	abrupt := ""
	for _, r := range conns {
		if r.Abrupt != "" && !r.CloseBegin.After(quietStart) {
			abrupt = r.Abrupt
			out.Label("abrupt:" + r.Abrupt + ":" + tr)
			if _, everServed := r.firstResp(); !everServed {
				out.Label("abrupt-never-served:" + tr)
			}
		}
	}
	if abrupt != "" && heldIdle && probed && returned {
		out.Label("abrupt-then-held-idle", "abrupt-then-held-idle:"+tr)
	}
	if holder.Silent && heldIdle && probed {
		out.Label("silent-held-idle", "silent-held-idle:"+tr)
	}
	if c.HookRefusals > 0 && refused == c.HookRefusals {
		out.Label("hook-refused:" + tr)
		if partial && heldIdle && probed {
			out.Label("hook-refused-then-overlap-idle-wait", "hook-refused-then-overlap-idle-wait:"+tr)
		}
	}
}

func runC42(c c42Case) (out lib.Outcome) {
	_, raceBefore := raceLog()
	defer func() { raceDelta(&out, "C42", raceBefore) }()
	var wg sync.WaitGroup
	outs := make([]lib.Outcome, len(c.Transports))
	for i, tr := range c.Transports {
		wg.Add(1)
		go func(i int, tr string) {
			defer wg.Done()
			runC42One(c, tr, &outs[i])
		}(i, tr)
	}
	wg.Wait()
	for _, o := range outs {
		out.Violations = append(out.Violations, o.Violations...)
		out.Labels = append(out.Labels, o.Labels...)
		out.NonTrivial = out.NonTrivial || o.NonTrivial
		out.Skipped = out.Skipped || o.Skipped
	}
	return
}

var propC42 = lib.Prop[c42Case]{
	ID: "C42",
	Rule: "connection schedules against real RunUnix / RunTcp listeners (idle time-out 100-400 ms): the serve-start hook failing its first 0-2 invocations (one sacrificial connection each, closed unserved, before the first wave), a holder connection plus 0-5 overlapping first-wave connections with 1-4 scripted u_str calls each (values, errors and logs tagged with the connection), some of which end abruptly (half-written request, or a request whose response is never read; possibly as their only traffic), " +
		"the holder (in a quarter of the cases completely silent from connect on) then idle for more than 2x the time-out while 1-2 probe connections are dialled and served, a second wave 0..timeout/4 after the holder closes, then everything closed. " +
		"Oracle: each connection reads exactly its own modelled responses; the interval in which the listener can have stopped accepting (latest served dial .. earliest refused dial / return) must contain an instant with no verifiably open connection in the preceding time-out; " +
		"no call is served after the function returned; the function returns after the last close (15 s bound); Unix socket owner-only (no group/other permission bits) while serving, path gone after return. Non-trivial: overlapping connections and a connection held idle > 2x the time-out.",
	Gen:          genC42,
	Run:          runC42,
	Essential:    []string{"overlap:unix", "overlap:tcp", "held-idle-2x:unix", "held-idle-2x:tcp", "probe-served:unix", "probe-served:tcp", "hook-refused-then-overlap-idle-wait", "abrupt-then-held-idle", "silent-held-idle"},
	EssentialMin: 10,
	Assumptions: []string{
		"the 60 s start-up grace is not waited for: every schedule opens its first connection immediately",
		"a connection dialled at the very instant the idle timer fires may legitimately find the listener closed; the oracle only constrains instants at which a connection was verifiably open (had completed a call) within the preceding time-out",
	},
}

func TestC42(t *testing.T) {
	defer dumpRaceLog()
	lib.Check(t, propC42)
}
