package g_conc

import (
	"bytes"
	"compress/gzip"
	"context"
	"encoding/json"
	"errors"
	"fmt"
	"io"
	"log/slog"
	"net/http"
	"net/http/httptest"
	"runtime"
	"sort"
	"strings"
	"sync"
	"testing"
	"time"

	"github.com/Query-farm/vgi-rpc-go/vgirpc"
	"github.com/apache/arrow-go/v18/arrow"
	"github.com/klauspost/compress/zstd"
	"pgregory.net/rapid"

	"verifharness/lib"
)

// C40 — concurrent HTTP serving is race-free; lazy setup runs once.
//
// One fully-featured HttpServer per round (dispatch hook = access log to a
// buffer + recorder, sticky sessions, response compression, in-memory external
// storage and upload-URL provider, serve-start hook failing its first k
// invocations). 8-64 goroutines are released together, each running a script
// of request flows over all routes, so the very first requests race through
// notifyTransport / InitPages / ProtocolHash. The test binary is built with
// -race; a race report surfaces as violation C40/data-race through the
// GORACE log file (see racelog_test.go).

func init() {
	slog.SetDefault(slog.New(slog.NewTextHandler(io.Discard, nil)))
}

type c40Flow struct {
	Kind    string `json:"kind"`               // unary | big | rpc_describe | health | landing | describe_page | notfound | options | wellknown | sticky | prod | exch | upload_url | unknown
	Accept  string `json:"accept,omitempty"`   // Accept-Encoding value ("" = none)
	Custom  bool   `json:"custom,omitempty"`   // send it as X-VGI-Accept-Encoding instead
	ReqZstd bool   `json:"req_zstd,omitempty"` // compress the request body
	Pad     int    `json:"pad,omitempty"`
}

type c40Case struct {
	Scripts    [][]c40Flow `json:"scripts"`
	HookFails  int         `json:"hook_fails"`
	HookPanics bool        `json:"hook_panics,omitempty"` // the failing invocations panic instead of returning an error
	Level      int         `json:"level"`                 // response compression level
	BatchLimit int         `json:"batch_limit"`           // producer batches per response
	// ExtZstd compresses externalised objects. Not generated: the server builds a fresh zstd encoder (GOMAXPROCS
	// sub-encoders) per externalised batch, which under the race detector costs seconds per call; replay-only.
	ExtZstd bool `json:"ext_zstd,omitempty"`
}

var c40Kinds = []string{"unary", "unary", "unary", "big", "rpc_describe", "health", "landing", "describe_page", "notfound", "options", "wellknown", "sticky", "sticky", "sticky_shared", "prod", "exch", "upload_url", "unknown"}

func genC40(t *rapid.T) c40Case {
	c := c40Case{
		HookFails:  rapid.IntRange(0, 5).Draw(t, "hook_fails"),
		HookPanics: rapid.IntRange(0, 2).Draw(t, "hook_panics") == 0,
		// zstd 1-3 only: SetCompressionLevel rejects 5+ ("unknown encoder level"), and a level-4 encoder's 34 MB tables,
		// re-allocated whenever the (race-mode) sync.Pool drops one, cost seconds of race-detector time per response
		Level:      []int{1, 1, 2, 3}[rapid.IntRange(0, 3).Draw(t, "level")],
		BatchLimit: rapid.IntRange(1, 2).Draw(t, "batch_limit"),
	}
	n := rapid.IntRange(8, 64).Draw(t, "goroutines")
	for i := 0; i < n; i++ {
		m := rapid.IntRange(1, 3).Draw(t, "nflows")
		var s []c40Flow
		for j := 0; j < m; j++ {
			f := c40Flow{Kind: c40Kinds[rapid.IntRange(0, len(c40Kinds)-1).Draw(t, "kind")]}
			// three in four requests ask for no compression: every compressed response costs the server a freshly allocated
			// encoder whenever the race-mode sync.Pool has dropped the pooled one, i.e. MBs of race-detector shadow work
			f.Accept = []string{"", "", "", "", "", "", "", "", "", "", "", "", "zstd", "gzip", "gzip, zstd", "zstd;q=0.5, gzip", "identity", "br"}[rapid.IntRange(0, 17).Draw(t, "accept")]
			f.Custom = rapid.IntRange(0, 3).Draw(t, "custom") == 0
			f.ReqZstd = rapid.IntRange(0, 7).Draw(t, "req_zstd") == 0
			f.Pad = []int{0, 10, 600, 5000}[rapid.IntRange(0, 3).Draw(t, "pad")]
			s = append(s, f)
		}
		c.Scripts = append(c.Scripts, s)
	}
	return c
}

// ---------------------------------------------------------------- server under test

type c40Event struct {
	Seq  int
	Kind string // hook_fail hook_ok dispatch handler dispatch_end
	A, B string
}

type c40Rec struct {
	mu     sync.Mutex
	events []c40Event
}

func (r *c40Rec) add(kind, a, b string) {
	r.mu.Lock()
	r.events = append(r.events, c40Event{Seq: len(r.events), Kind: kind, A: a, B: b})
	r.mu.Unlock()
}

type c40Hook struct {
	rec *c40Rec
	al  *vgirpc.AccessLogHook
	srv *vgirpc.Server
}

func (h *c40Hook) OnDispatchStart(ctx context.Context, info vgirpc.DispatchInfo) (context.Context, vgirpc.HookToken) {
	h.rec.add("dispatch", string(h.srv.TransportKind()), info.ProtocolHash)
	return h.al.OnDispatchStart(ctx, info)
}

func (h *c40Hook) OnDispatchEnd(ctx context.Context, token vgirpc.HookToken, info vgirpc.DispatchInfo, stats *vgirpc.CallStatistics, err error) {
	h.al.OnDispatchEnd(ctx, token, info, stats, err)
	h.rec.add("dispatch_end", info.Method, "")
}

type c40Mem struct {
	mu   sync.Mutex
	n    int
	objs map[string][]byte
	encs map[string]string
}

func (m *c40Mem) Upload(data []byte, _ *arrow.Schema, enc string) (string, error) {
	m.mu.Lock()
	defer m.mu.Unlock()
	m.n++
	u := fmt.Sprintf("https://mem.example/obj-%d", m.n)
	m.objs[u] = append([]byte{}, data...)
	m.encs[u] = enc
	return u, nil
}

func (m *c40Mem) GenerateUploadURL(_ *arrow.Schema) (vgirpc.UploadURL, error) {
	m.mu.Lock()
	defer m.mu.Unlock()
	m.n++
	return vgirpc.UploadURL{UploadURL: fmt.Sprintf("https://mem.example/put-%d", m.n), DownloadURL: fmt.Sprintf("https://mem.example/get-%d", m.n), ExpiresAt: time.Unix(4102444800, 0).UTC()}, nil
}

func (m *c40Mem) get(u string) ([]byte, string, bool) {
	m.mu.Lock()
	defer m.mu.Unlock()
	d, ok := m.objs[u]
	return d, m.encs[u], ok
}

// c40State is deliberately unsynchronised: the framework promises that calls
// bearing one session (a teardown included) never run concurrently, so plain
// fields are what an application would write. The race detector judges it.
type c40State struct {
	tag    string
	uses   int
	closed bool
}

func (s *c40State) Close() error { s.closed = true; return nil }

type c40Probe struct {
	Tag string `json:"tag"`
	Act string `json:"act"` // plain | open | use
}

type c40Server struct {
	hs     *vgirpc.HttpServer
	srv    *vgirpc.Server
	rec    *c40Rec
	mem    *c40Mem
	logBuf *bytes.Buffer
	hookN  int // guarded by rec.mu
	hookOK int
}

var c40Key = []byte("c40-token-key-0123456789abcdef-0123")

func newC40Server(c c40Case, hookFails int) *c40Server {
	s := &c40Server{rec: &c40Rec{}, mem: &c40Mem{objs: map[string][]byte{}, encs: map[string]string{}}, logBuf: &bytes.Buffer{}}
	srv := vgirpc.NewServer()
	s.srv = srv
	srv.SetServerID("c40-server")
	srv.SetServiceName("c40svc")
	lib.RegisterScripted(srv)
	vgirpc.Unary(srv, "p_kind", func(_ context.Context, ctx *vgirpc.CallContext, p lib.ScriptParams) (string, error) {
		var pr c40Probe
		if err := json.Unmarshal([]byte(p.Script), &pr); err != nil {
			panic("harness: bad probe script")
		}
		s.rec.add("handler", string(ctx.Kind), string(srv.TransportKind())+"|"+srv.ProtocolHash())
		switch pr.Act {
		case "open":
			if err := ctx.OpenSession(&c40State{tag: pr.Tag}, time.Hour); err != nil {
				return "", err
			}
		case "use":
			st, _ := ctx.Session().(*c40State)
			if st == nil {
				return "", &vgirpc.RpcError{Type: "NoSession", Message: "no session"}
			}
			st.uses++
			runtime.Gosched()
			if st.closed {
				return "", &vgirpc.RpcError{Type: "ClosedUnderHandler", Message: "the session state was closed while this handler was running on it"}
			}
			return "used:" + st.tag + ":" + pr.Tag, nil
		}
		return "plain:" + pr.Tag, nil
	})
	ext := vgirpc.DefaultExternalLocationConfig(s.mem)
	ext.ExternalizeThresholdBytes = 4096
	if c.ExtZstd {
		ext.Compression = &vgirpc.Compression{Algorithm: "zstd", Level: 3}
	}
	srv.SetExternalLocation(ext)
	// the access log writes to a plain buffer: the hook documents that it serialises its writes itself
	al := vgirpc.NewAccessLogHook(s.logBuf, "c40")
	srv.SetDispatchHook(&c40Hook{rec: s.rec, al: al, srv: srv})
	srv.SetServeStartHook(func(kind vgirpc.TransportKind, _ map[string]bool) error {
		bound := srv.TransportKind()
		s.rec.mu.Lock()
		s.hookN++
		n := s.hookN
		fail := n <= hookFails
		if !fail {
			s.hookOK++
		}
		s.rec.mu.Unlock()
		if fail {
			s.rec.add("hook_fail", string(kind), string(bound))
			if c.HookPanics {
				panic("c40: serve-start hook panics on purpose")
			}
			return errors.New("c40: serve-start hook fails on purpose")
		}
		s.rec.add("hook_ok", string(kind), string(bound))
		return nil
	})
	hs, err := vgirpc.NewHttpServerWithKey(srv, c40Key)
	if err != nil {
		panic(err)
	}
	if err := hs.SetCompressionLevel(c.Level); err != nil {
		panic(err)
	}
	// SetUploadURLProvider rebuilds the route table, so it has to precede EnableSticky (which adds DELETE /__session__)
	hs.SetUploadURLProvider(s.mem)
	hs.EnableSticky(time.Hour)
	hs.SetProducerBatchLimit(c.BatchLimit)
	hs.SetCorsOrigins("*")
	s.hs = hs
	return s
}

// c40Patience bounds a round: every request is answered from memory, so a
// round still running after this long is stuck, not slow.
const c40Patience = 120 * time.Second

// ---------------------------------------------------------------- client flows

type c40Obs struct {
	Flow     string
	First    bool // first request of its goroutine
	Route    string
	Status   int
	HookFail bool // answered with a plain-text 500 (the serve-start hook refused)
	Panic    string
	Problem  string // response is not what this request's model says
	Page     string // landing | describe_page | notfound | health -> body for the once-only comparison
	Body     []byte
	Hash     string // protocol hash seen in a __describe__ response
}

var c40ZstdEnc, _ = zstd.NewWriter(nil, zstd.WithEncoderConcurrency(1))
var c40ZstdDec, _ = zstd.NewReader(nil, zstd.WithDecoderConcurrency(1))

// c40DoHTTP is lib.DoHTTP with the response decoded through one shared
// DecodeAll decoder: lib.DoHTTP builds a streaming zstd reader (goroutines,
// window buffers) per response, which under the race detector dominates the
// cost of a round of several hundred requests.
func c40DoHTTP(h http.Handler, method, path string, hdr map[string]string, body []byte) (resp lib.HTTPResp) {
	var rd io.Reader
	if body != nil {
		rd = bytes.NewReader(body)
	}
	req := httptest.NewRequest(method, path, rd)
	for k, v := range hdr {
		req.Header.Set(k, v)
	}
	rec := httptest.NewRecorder()
	func() {
		defer func() {
			if rv := recover(); rv != nil {
				resp.Panic = fmt.Sprint(rv)
			}
		}()
		h.ServeHTTP(rec, req)
	}()
	resp.Status, resp.Header, resp.Body = rec.Code, rec.Header(), rec.Body.Bytes()
	resp.Decoded = resp.Body
	coding := strings.ToLower(strings.TrimSpace(resp.Header.Get("Content-Encoding")))
	if coding == "" {
		if c := strings.ToLower(strings.TrimSpace(resp.Header.Get("X-VGI-Content-Encoding"))); c != "" {
			coding, resp.OnCustomHeader = c, true
		}
	}
	resp.Coding = coding
	switch coding {
	case "", "identity":
	case "zstd":
		out, err := c40ZstdDec.DecodeAll(resp.Body, nil)
		if err != nil {
			out = nil
		} else if out == nil {
			out = []byte{}
		}
		resp.Decoded = out
	case "gzip":
		resp.Decoded = nil
		if gz, err := gzip.NewReader(bytes.NewReader(resp.Body)); err == nil {
			if out, err := io.ReadAll(gz); err == nil {
				resp.Decoded = out
			}
		}
	default:
		resp.Decoded = nil
	}
	return resp
}

type c40Client struct {
	s   *c40Server
	obs []c40Obs
	n   int
	gid int
}

func (cl *c40Client) do(f c40Flow, method, path string, body []byte, extra map[string]string) (lib.HTTPResp, *c40Obs) {
	hdr := map[string]string{}
	for k, v := range extra {
		hdr[k] = v
	}
	if f.Accept != "" {
		if f.Custom {
			hdr["X-VGI-Accept-Encoding"] = f.Accept
		} else {
			hdr["Accept-Encoding"] = f.Accept
		}
	}
	rid := fmt.Sprintf("g%d-r%d", cl.gid, cl.n)
	hdr["X-Request-ID"] = rid
	if body != nil {
		hdr["Content-Type"] = lib.ArrowCT
		if f.ReqZstd {
			body = c40ZstdEnc.EncodeAll(body, nil)
			hdr["Content-Encoding"] = "zstd"
		}
	}
	resp := c40DoHTTP(cl.s.hs, method, path, hdr, body)
	o := c40Obs{Flow: f.Kind, First: cl.n == 0, Route: method + " " + path, Status: resp.Status, Panic: resp.Panic}
	cl.n++
	// a refusal by the serve-start hook: a plain (non-Arrow) 500, whatever its wording
	if resp.Status == 500 && !strings.HasPrefix(resp.Header.Get("Content-Type"), lib.ArrowCT) && resp.Panic == "" {
		o.HookFail = true
	} else if resp.Panic == "" {
		if got := resp.Header.Get("X-Request-ID"); got != rid {
			o.Problem = fmt.Sprintf("X-Request-ID %q, want %q", got, rid)
		} else if resp.Decoded == nil && len(resp.Body) > 0 {
			o.Problem = fmt.Sprintf("response body does not decode with its stamped coding %q", resp.Coding)
		}
	}
	cl.obs = append(cl.obs, o)
	return resp, &cl.obs[len(cl.obs)-1]
}

// fetch returns the batches of an externalised object held by the in-memory storage.
func (m *c40Mem) fetch(loc string) ([]lib.BatchM, error) {
	data, enc, ok := m.get(loc)
	if !ok {
		return nil, fmt.Errorf("pointer names %q, which the storage never received", loc)
	}
	if enc == "zstd" {
		dec, err := zstd.NewReader(bytes.NewReader(data), zstd.WithDecoderConcurrency(1))
		if err != nil {
			return nil, err
		}
		data, err = io.ReadAll(dec)
		dec.Close()
		if err != nil {
			return nil, fmt.Errorf("stored object does not decompress: %w", err)
		}
	}
	inner, err := lib.SplitStreams(data)
	if err != nil || len(inner) != 1 {
		return nil, fmt.Errorf("stored object is not one IPC stream (%d streams): %v", len(inner), err)
	}
	return inner[0].Batches, nil
}

func (cl *c40Client) data(resp lib.HTTPResp) (vals []any, errKind string, streams []lib.StreamM, err error) {
	streams, err = lib.SplitStreams(resp.Decoded)
	if err != nil {
		return
	}
	for _, st := range streams {
		for _, b := range st.Batches {
			switch b.Kind() {
			case "pointer":
				loc, _ := b.Get(lib.KLocation)
				inner, ferr := cl.s.mem.fetch(loc)
				if ferr != nil {
					err = ferr
					return
				}
				for _, ib := range inner {
					if ib.Kind() == "data" {
						for r := 0; r < int(ib.Rec.NumRows()); r++ {
							vals = append(vals, lib.Value(ib.Rec.Column(0), r))
						}
					}
				}
			case "data":
				for r := 0; r < int(b.Rec.NumRows()); r++ {
					vals = append(vals, lib.Value(b.Rec.Column(0), r))
				}
			case "error":
				errKind, _ = b.Get(lib.KLogMessage)
				if errKind == "" {
					errKind = "error"
				}
			}
		}
	}
	return
}

func c40Tokens(streams []lib.StreamM) (cursor, call string) {
	for _, st := range streams {
		for _, b := range st.Batches {
			if v, ok := b.Get(lib.KStreamState); ok {
				cursor = v
			}
			if v, ok := b.Get(lib.KCallState); ok {
				call = v
			}
		}
	}
	return
}

var c40Empty = arrow.NewSchema(nil, nil)

func (cl *c40Client) probe(f c40Flow, act, tag string, extra map[string]string) (lib.HTTPResp, *c40Obs, string) {
	b, _ := json.Marshal(c40Probe{Tag: tag, Act: act})
	resp, o := cl.do(f, "POST", "/p_kind", lib.BuildRequest("p_kind", lib.ScriptBatch(string(b)), lib.ReqOpts{}), extra)
	if o.HookFail || o.Panic != "" || o.Problem != "" {
		return resp, o, ""
	}
	vals, ek, _, err := cl.data(resp)
	if err != nil || ek != "" || len(vals) != 1 {
		o.Problem = fmt.Sprintf("p_kind %s: status %d err=%v exception=%q values=%v", act, resp.Status, err, lib.Short(ek, 100), vals)
		return resp, o, ""
	}
	v, _ := vals[0].(string)
	return resp, o, v
}

func (cl *c40Client) run(f c40Flow) {
	tag := fmt.Sprintf("g%d-%d-%s", cl.gid, cl.n, strings.Repeat("t", f.Pad))
	switch f.Kind {
	case "unary":
		if _, o, v := cl.probe(f, "plain", tag, nil); o.Problem == "" && !o.HookFail && o.Panic == "" && v != "plain:"+tag {
			o.Problem = fmt.Sprintf("value %q, want plain:%s", lib.Short(v, 60), lib.Short(tag, 40))
		}
	case "sticky":
		resp, o, _ := cl.probe(f, "open", tag, map[string]string{"VGI-Session-Accept": "true"})
		tok := resp.Header.Get("VGI-Session")
		if o.HookFail || o.Panic != "" || o.Problem != "" {
			return
		}
		if tok == "" {
			o.Problem = "open succeeded without a VGI-Session token"
			return
		}
		if _, o2, v := cl.probe(f, "use", tag+"u", map[string]string{"VGI-Session": tok}); o2.Problem == "" && !o2.HookFail && o2.Panic == "" && v != "used:"+tag+":"+tag+"u" {
			o2.Problem = fmt.Sprintf("session use returned %q", lib.Short(v, 80))
		}
		if r3, o3 := cl.do(f, "DELETE", "/__session__", nil, map[string]string{"VGI-Session": tok}); !o3.HookFail && o3.Panic == "" && r3.Status != http.StatusNoContent {
			o3.Problem = fmt.Sprintf("DELETE of an own live session answered %d", r3.Status)
		}
	case "sticky_shared":
		// one session used by several requests at once, one of them its teardown
		resp, o, _ := cl.probe(f, "open", tag, map[string]string{"VGI-Session-Accept": "true"})
		tok := resp.Header.Get("VGI-Session")
		if o.HookFail || o.Panic != "" || o.Problem != "" || tok == "" {
			return
		}
		var wg sync.WaitGroup
		var mu sync.Mutex
		var problems []string
		var subObs []c40Obs
		for k := 0; k < 4; k++ {
			wg.Add(1)
			go func(k int) {
				defer wg.Done()
				sub := &c40Client{s: cl.s, gid: cl.gid*100 + k + 1}
				defer func() {
					mu.Lock()
					for _, so := range sub.obs {
						so.First = false
						subObs = append(subObs, so)
					}
					mu.Unlock()
				}()
				if k == 2 {
					if r3, o3 := sub.do(f, "DELETE", "/__session__", nil, map[string]string{"VGI-Session": tok}); !o3.HookFail && o3.Panic == "" && r3.Status != http.StatusNoContent && r3.Status != http.StatusOK {
						mu.Lock()
						problems = append(problems, fmt.Sprintf("DELETE answered %d", r3.Status))
						mu.Unlock()
					}
					return
				}
				r, o2 := sub.do(f, "POST", "/p_kind", lib.BuildRequest("p_kind", lib.ScriptBatch(fmt.Sprintf(`{"tag":"%su%d","act":"use"}`, tag, k)), lib.ReqOpts{}), map[string]string{"VGI-Session": tok})
				if o2.HookFail || o2.Panic != "" {
					return
				}
				// either it ran on the live session, or the session was already gone
				if _, ek, _, err := sub.data(r); err == nil && strings.Contains(ek, "ClosedUnderHandler") {
					mu.Lock()
					problems = append(problems, "a use handler saw its session state closed while it was running")
					mu.Unlock()
				}
			}(k)
		}
		wg.Wait()
		if len(problems) > 0 {
			o.Problem = strings.Join(problems, "; ")
		}
		// the sub-requests' own observations (panics, wrong request ids, undecodable bodies) count too
		mu.Lock()
		cl.obs = append(cl.obs, subObs...)
		mu.Unlock()
	case "big":
		size := 20000 + f.Pad
		us := lib.UnaryScript{Outcome: "value", Size: size}
		resp, o := cl.do(f, "POST", "/u_bytes", lib.BuildRequest("u_bytes", lib.ScriptBatch(us.JSON()), lib.ReqOpts{}), nil)
		if o.HookFail || o.Panic != "" || o.Problem != "" {
			return
		}
		vals, ek, _, err := cl.data(resp)
		if err != nil || ek != "" || len(vals) != 1 {
			o.Problem = fmt.Sprintf("u_bytes(%d): err=%v exception=%q values=%d", size, err, lib.Short(ek, 100), len(vals))
			return
		}
		// lib.Value renders binaries as "0x" + hex
		if b, _ := vals[0].(string); len(b) != 2+2*size {
			o.Problem = fmt.Sprintf("externalised result holds %d bytes, want %d", (len(b)-2)/2, size)
		}
	case "rpc_describe":
		resp, o := cl.do(f, "POST", "/__describe__", lib.BuildRequest("__describe__", lib.EmptyBatch(c40Empty), lib.ReqOpts{}), nil)
		if o.HookFail || o.Panic != "" || o.Problem != "" {
			return
		}
		streams, err := lib.SplitStreams(resp.Decoded)
		if err != nil || len(streams) == 0 {
			o.Problem = fmt.Sprintf("undecodable __describe__ response: %v", err)
			return
		}
		for _, st := range streams {
			for _, b := range st.Batches {
				if v, ok := b.Get(lib.KProtoHash); ok {
					o.Hash = v
				}
			}
		}
		if o.Hash == "" {
			o.Problem = "__describe__ response without a protocol hash"
		}
	case "health", "landing", "describe_page", "notfound", "wellknown":
		path := map[string]string{"health": "/health", "landing": "/", "describe_page": "/describe", "notfound": "/no/such/page", "wellknown": "/.well-known/oauth-protected-resource"}[f.Kind]
		resp, o := cl.do(f, "GET", path, nil, nil)
		if o.HookFail || o.Panic != "" || o.Problem != "" {
			return
		}
		if f.Kind != "wellknown" {
			o.Page, o.Body = f.Kind, resp.Decoded
		}
	case "options":
		resp, o := cl.do(f, "OPTIONS", "/health", nil, nil)
		if !o.HookFail && o.Panic == "" && o.Problem == "" && resp.Status != http.StatusNoContent {
			o.Problem = fmt.Sprintf("OPTIONS answered %d", resp.Status)
		}
	case "unknown":
		resp, o := cl.do(f, "POST", "/no_such_method", lib.BuildRequest("no_such_method", lib.ScriptBatch("{}"), lib.ReqOpts{}), nil)
		if !o.HookFail && o.Panic == "" && o.Problem == "" && resp.Status != http.StatusNotFound {
			o.Problem = fmt.Sprintf("unknown method answered %d", resp.Status)
		}
	case "upload_url":
		resp, o := cl.do(f, "POST", "/__upload_url__/init", lib.BuildRequest("__upload_url__", lib.Int64Batch(vgirpc.UploadURLParamsSchema, 2), lib.ReqOpts{}), nil)
		if o.HookFail || o.Panic != "" || o.Problem != "" {
			return
		}
		streams, err := lib.SplitStreams(resp.Decoded)
		rows := int64(0)
		if err == nil {
			for _, st := range streams {
				for _, b := range st.Batches {
					if b.Kind() == "data" {
						rows += b.Rec.NumRows()
					}
				}
			}
		}
		if resp.Status != 200 || rows != 2 {
			o.Problem = fmt.Sprintf("upload-url init: status %d rows %d err %v", resp.Status, rows, err)
		}
	case "prod":
		sc := lib.StreamScript{InitOutcome: "ok", Turns: []lib.TurnSpec{{Act: "emit"}, {Act: "emit"}, {Act: "emit"}}}
		resp, o := cl.do(f, "POST", "/s_prod/init", lib.BuildRequest("s_prod", lib.ScriptBatch(sc.JSON()), lib.ReqOpts{}), nil)
		var got []any
		for i := 0; i < 8; i++ {
			if o.HookFail || o.Panic != "" || o.Problem != "" {
				return
			}
			vals, ek, streams, err := cl.data(resp)
			if err != nil || ek != "" {
				o.Problem = fmt.Sprintf("producer response: err=%v exception=%q", err, lib.Short(ek, 100))
				return
			}
			got = append(got, vals...)
			cursor, call := c40Tokens(streams)
			if cursor == "" {
				break
			}
			b := lib.WithMeta(lib.EmptyBatch(c40Empty), []string{lib.KStreamState, lib.KCallState}, []string{cursor, call})
			resp, o = cl.do(f, "POST", "/s_prod/exchange", lib.EncodeStream(c40Empty, b), nil)
		}
		if fmt.Sprint(got) != "[0 100 200]" {
			o.Problem = fmt.Sprintf("producer emitted %v over its continuations, want [0 100 200]", got)
		}
	case "exch":
		sc := lib.StreamScript{InitOutcome: "ok"}
		resp, o := cl.do(f, "POST", "/s_exch/init", lib.BuildRequest("s_exch", lib.ScriptBatch(sc.JSON()), lib.ReqOpts{}), nil)
		x := int64(cl.gid + 1)
		for turn := int64(0); turn < 2; turn++ {
			if o.HookFail || o.Panic != "" || o.Problem != "" {
				return
			}
			_, ek, streams, err := cl.data(resp)
			cursor, call := c40Tokens(streams)
			if err != nil || ek != "" || cursor == "" {
				o.Problem = fmt.Sprintf("exchange init/turn: err=%v exception=%q cursor=%v", err, lib.Short(ek, 100), cursor != "")
				return
			}
			b := lib.WithMeta(lib.Int64Batch(lib.InSchema, x), []string{lib.KStreamState, lib.KCallState}, []string{cursor, call})
			resp, o = cl.do(f, "POST", "/s_exch/exchange", lib.EncodeStream(lib.InSchema, b), nil)
			if o.HookFail || o.Panic != "" || o.Problem != "" {
				return
			}
			vals, ek2, _, err2 := cl.data(resp)
			if want := fmt.Sprint([]any{x*1000 + turn}); err2 != nil || ek2 != "" || fmt.Sprint(vals) != want {
				o.Problem = fmt.Sprintf("exchange turn %d answered %v (err=%v exception=%q), want %s", turn, vals, err2, lib.Short(ek2, 80), want)
				return
			}
		}
	}
}

// ---------------------------------------------------------------- run + oracle

func c40Twin(c c40Case) (pages map[string][]byte, hash string) {
	tw := newC40Server(c, 0)
	cl := &c40Client{s: tw, gid: 999}
	for _, k := range []string{"health", "landing", "describe_page", "notfound", "rpc_describe"} {
		cl.run(c40Flow{Kind: k})
	}
	pages = map[string][]byte{}
	for _, o := range cl.obs {
		if o.Page != "" {
			pages[o.Page] = o.Body
		}
		if o.Hash != "" {
			hash = o.Hash
		}
	}
	return
}

func runC40(c c40Case) (out lib.Outcome) {
	_, raceBefore := raceLog()
	defer func() { raceDelta(&out, "C40", raceBefore) }()
	s := newC40Server(c, c.HookFails)
	start := make(chan struct{})
	var wg sync.WaitGroup
	clients := make([]*c40Client, len(c.Scripts))
	for i := range c.Scripts {
		clients[i] = &c40Client{s: s, gid: i}
		wg.Add(1)
		go func(cl *c40Client, script []c40Flow) {
			defer wg.Done()
			<-start
			for _, f := range script {
				cl.run(f)
			}
		}(clients[i], c.Scripts[i])
	}
	close(start)
	allDone := make(chan struct{})
	go func() { wg.Wait(); close(allDone) }()
	select {
	case <-allDone:
	case <-time.After(c40Patience):
		out.Violate("C40/requests-never-returned", "after %v some of the %d client goroutines are still waiting for a response (serve-start hook: first %d invocations fail, panicking=%v)", c40Patience, len(c.Scripts), c.HookFails, c.HookPanics)
		return
	}

	twinPages, twinHash := c40Twin(c)
	if twinHash == "" {
		out.Violate("C40/twin-no-hash", "the sequential twin server produced no protocol hash")
		return
	}

	total, hookFailed := 0, 0
	firstRoutes := map[string]bool{}
	for _, cl := range clients {
		for _, o := range cl.obs {
			total++
			if o.First {
				firstRoutes[o.Flow] = true
			}
			switch {
			case c.HookPanics && strings.Contains(o.Panic, "serve-start hook panics on purpose"):
				// the operator's hook panicked: a failure of the hook, surfaced its own way
				hookFailed++
			case o.Panic != "":
				what := "other"
				if strings.Contains(o.Panic, "conflicts with pattern") || strings.Contains(o.Panic, "pattern") {
					what = "duplicate-route-registration"
				}
				out.Violate("C40/panic-"+what, "request %s (flow %s) panicked out of ServeHTTP: %s", o.Route, o.Flow, lib.Short(o.Panic, 300))
			case o.HookFail:
				hookFailed++
			case o.Problem != "":
				out.Violate(lib.Keyf("C40", "wrong-response", o.Flow), "goroutine request %s (flow %s, status %d): %s", o.Route, o.Flow, o.Status, o.Problem)
			}
			if o.Page != "" && !bytes.Equal(o.Body, twinPages[o.Page]) {
				out.Violate(lib.Keyf("C40", "page-differs", o.Page), "%s body served under concurrency (%d bytes) differs from the sequentially initialised twin's (%d bytes)", o.Page, len(o.Body), len(twinPages[o.Page]))
			}
			if o.Hash != "" && o.Hash != twinHash {
				out.Violate("C40/describe-hash-differs", "__describe__ under concurrency reports protocol hash %q, the sequential twin %q", o.Hash, twinHash)
			}
		}
	}

	s.rec.mu.Lock()
	events := append([]c40Event{}, s.rec.events...)
	hookN, hookOK := s.hookN, s.hookOK
	s.rec.mu.Unlock()
	okSeq, ends, dispatches := -1, 0, 0
	for _, e := range events {
		switch e.Kind {
		case "hook_ok":
			okSeq = e.Seq
			fallthrough
		case "hook_fail":
			if e.A != "http" {
				out.Violate("C40/hook-wrong-kind", "serve-start hook invoked with kind %q", e.A)
			}
			if e.B != "" {
				out.Violate("C40/bind-committed-before-hook", "Server.TransportKind() was already %q while the serve-start hook was running (invocation #%d)", e.B, e.Seq)
			}
		}
	}
	// the hook commits once, and is re-run after each failure rather than skipped
	wantCalls := c.HookFails + 1
	if total <= c.HookFails {
		wantCalls = total
	}
	if hookOK != 1 || hookN != wantCalls {
		out.Violate("C40/hook-count", "serve-start hook: %d invocations of which %d succeeded; want %d invocations (first %d fail) and exactly 1 success over %d requests", hookN, hookOK, wantCalls, c.HookFails, total)
	}
	if hookFailed != hookN-hookOK {
		out.Violate("C40/hook-failure-not-surfaced", "%d hook failures but %d requests were refused with 'server startup hook failed'", hookN-hookOK, hookFailed)
	}
	for _, e := range events {
		switch e.Kind {
		case "dispatch":
			dispatches++
			if e.Seq < okSeq || okSeq < 0 {
				out.Violate("C40/dispatch-before-hook-success", "a call was dispatched (#%d) before the serve-start hook had succeeded (#%d)", e.Seq, okSeq)
			}
			if e.A != "http" {
				out.Violate("C40/kind-not-uniform", "a dispatch observed Server.TransportKind() = %q", e.A)
			}
			if e.B != twinHash {
				out.Violate("C40/hash-not-uniform", "a dispatch observed ProtocolHash %q, the sequential twin computes %q", e.B, twinHash)
			}
		case "handler":
			if e.A != "http" || e.B != "http|"+twinHash {
				out.Violate("C40/kind-not-uniform", "a handler observed CallContext.Kind=%q, TransportKind|ProtocolHash=%q; want http and http|%s", e.A, e.B, twinHash)
			}
		case "dispatch_end":
			ends++
		}
	}
	if ends != dispatches {
		out.Violate("C40/hook-end-missing", "%d dispatch starts but %d ends", dispatches, ends)
	}
	// access log: one intact JSON line per dispatch
	lines := strings.Split(strings.TrimSuffix(s.logBuf.String(), "\n"), "\n")
	if s.logBuf.Len() == 0 {
		lines = nil
	}
	bad := 0
	for _, ln := range lines {
		var m map[string]any
		if json.Unmarshal([]byte(ln), &m) != nil {
			bad++
		}
	}
	if bad > 0 || len(lines) != ends {
		out.Violate("C40/access-log-torn", "access log holds %d lines (%d not valid JSON) for %d completed dispatches", len(lines), bad, ends)
	}

	var fr []string
	for k := range firstRoutes {
		fr = append(fr, k)
	}
	sort.Strings(fr)
	out.Label(fmt.Sprintf("goroutines:%d+", len(c.Scripts)/16*16), fmt.Sprintf("hook_fails:%d", c.HookFails))
	if c.HookPanics && c.HookFails > 0 {
		out.Label("hook-panics")
	}
	for _, k := range fr {
		out.Label("first:" + k)
	}
	if len(c.Scripts) >= 16 && len(fr) >= 3 {
		out.NonTrivial = true
		out.Label("16+first-requests-over-3+routes")
	}
	if _, sz := raceLog(); sz < 0 {
		out.Label("race-log-not-configured")
	}
	return
}

var propC40 = lib.Prop[c40Case]{
	ID: "C40",
	Rule: "rounds of 8-64 goroutines released together against one fresh fully-featured HttpServer (access-log + recording dispatch hook, sticky sessions, response compression level 1-3, in-memory external storage with threshold 4 KiB, upload-URL provider, producer batch limit, CORS), " +
		"each running 1-3 request flows over all routes (unary, externalised result, __describe__, health, landing/describe/404 pages, OPTIONS, well-known, sticky open/use/DELETE, producer with continuations, exchange turns, upload-URL init, unknown method) with generated Accept-Encoding / request compression; " +
		"the serve-start hook fails its first 0-5 invocations. Oracle: race detector silent (-race build), hook invoked exactly k+1 times with one success and k refused requests, binding uncommitted while the hook runs, no dispatch before the success, every dispatch/handler sees kind http and the hash a sequentially initialised twin computes, pages byte-identical to the twin's, every response is its own request's, no panic. " +
		"Non-trivial: >=16 goroutines whose first requests cover >=3 routes.",
	Gen:          genC40,
	Run:          runC40,
	Essential:    []string{"hook-panics", "16+first-requests-over-3+routes", "first:unary", "first:sticky", "first:landing", "first:prod", "first:big"},
	EssentialMin: 15,
	Assumptions: []string{
		"schedules are whatever the Go scheduler produces when all goroutines are released at once; nothing is enumerated",
		"requests call HttpServer.ServeHTTP directly with a recorder, so a panic is observed instead of being swallowed by net/http",
	},
}

func TestC40(t *testing.T) {
	defer dumpRaceLog()
	lib.Check(t, propC40)
}
