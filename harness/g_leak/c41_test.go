//go:build leakcheck

package g_leak

import (
	"fmt"
	"net/http"
	"net/http/httptest"
	"os"
	"strconv"
	"strings"
	"sync"
	"testing"
	"time"

	"github.com/Query-farm/vgi-rpc-go/vgirpc"
	"github.com/apache/arrow-go/v18/arrow"
	"pgregory.net/rapid"

	"verifharness/lib"
)

// C41 — every dispatch path releases all Arrow memory it allocates.

type c41Case struct {
	Transport string       `json:"transport"` // pipe | http
	Call      lib.CallSpec `json:"call"`
	Limit     int          `json:"limit"`
	MaxResp   int64        `json:"max_response_bytes"`
	MaxExt    int64        `json:"max_externalized_response_bytes,omitempty"`
	External  bool         `json:"external"`        // server has external storage (results above 512 B are uploaded)
	ExtInput  string       `json:"external_input"`  // "" | params | params+logs | two-data | broken | cut-in-second | cut-eos | xin32 | xin64
	Version   string       `json:"version,omitempty"`
	// Shm: pipe session whose client advertises a shared-memory segment; the
	// request may itself be a pointer into it ("req"), a stream's exchange
	// inputs may be ("in"), and large results come back as pointers.
	Shm string `json:"shm,omitempty"` // "" | adv | req | in
	// WriteFail > 0: on the judged (second) run the pipe's peer goes away after
	// that many per-mille of the output the first run produced
	WriteFail int `json:"write_fail,omitempty"`
}

// c41OutLen is the output length of the last fault-free pipe run; c41FailAt >= 0
// makes the next pipe run's writer fail after that many bytes.
var c41OutLen, c41FailAt = 0, -1

type memStore struct {
	mu sync.Mutex
	n  int
}

func (m *memStore) Upload(data []byte, schema *arrow.Schema, enc string) (string, error) {
	m.mu.Lock()
	defer m.mu.Unlock()
	m.n++
	return fmt.Sprintf("https://127.0.0.1:9/o/%d", m.n), nil
}

func genC41(t *rapid.T) c41Case {
	c := c41Case{Transport: []string{"pipe", "http", "http"}[rapid.IntRange(0, 2).Draw(t, "transport")], Limit: rapid.IntRange(0, 2).Draw(t, "limit")}
	c.Call = lib.GenCall(t, lib.CallID(0))
	if c.Transport == "http" {
		for c.Call.Kind != "unary" && c.Call.Kind != "stream" && c.Call.Kind != "unknown" && c.Call.Kind != "describe" {
			c.Call = lib.GenCall(t, lib.CallID(0))
		}
		if rapid.IntRange(0, 3).Draw(t, "cap") == 0 {
			c.MaxResp = int64(rapid.IntRange(300, 900).Draw(t, "capv"))
		}
	}
	c.External = rapid.IntRange(0, 2).Draw(t, "ext") == 0
	if c.External && c.Transport == "http" && rapid.IntRange(0, 1).Draw(t, "extcap") == 0 {
		// uploads above this are refused (unary, exchange) or end the producer turn
		c.MaxExt = int64(rapid.IntRange(200, 2500).Draw(t, "extcapv"))
	}
	if c.Call.Kind == "unary" && c.Call.Unary != nil {
		c.Call.Unary.Size = rapid.IntRange(0, 3000).Draw(t, "size")
		if c.MaxExt > 0 && rapid.Bool().Draw(t, "overcap") {
			// a result that has to be uploaded and is over the upload cap
			c.Call.Unary.Size = int(c.MaxExt) + rapid.IntRange(300, 3000).Draw(t, "oversize")
			c.Call.Unary.Outcome, c.Call.Unary.Err = "value", nil
		}
		if rapid.Bool().Draw(t, "bytes") {
			c.Call.Method = "u_bytes"
		}
	}
	if c.Call.Kind == "stream" {
		for i := range c.Call.Stream.Turns {
			if rapid.IntRange(0, 2).Draw(t, "pad") == 0 {
				c.Call.Stream.Turns[i].Pad = rapid.IntRange(0, 1500).Draw(t, "padv")
			}
		}
	}
	if c.External && c.Transport == "http" && (c.Call.Kind == "unary" || c.Call.Kind == "stream") && rapid.IntRange(0, 1).Draw(t, "extin") == 0 {
		c.ExtInput = []string{"params", "params+logs", "two-data", "broken", "cut-in-second", "cut-in-second", "cut-eos", "xin32", "xin64", "xin32"}[rapid.IntRange(0, 9).Draw(t, "extink")]
		if strings.HasPrefix(c.ExtInput, "xin") {
			// exchange inputs supplied through external pointers (xin32: castable int32 column)
			c.Call = lib.CallSpec{Kind: "stream", Method: []string{"s_exch", "s_exch_h", "s_dyn"}[rapid.IntRange(0, 2).Draw(t, "xm")], CancelAt: -1,
				Stream: &lib.StreamScript{ID: lib.CallID(0), InitOutcome: "ok", DynKind: "exchange", DynInput: true}, Inputs: []lib.InputSpec{{Vals: []int64{1}}, {Vals: []int64{2}}, {Vals: []int64{3}}}}
		}
	}
	if c.Transport == "pipe" && (c.Call.Kind == "unary" || c.Call.Kind == "stream") && rapid.IntRange(0, 2).Draw(t, "shm") == 0 {
		c.Shm = []string{"adv", "req", "in"}[rapid.IntRange(0, 2).Draw(t, "shmkind")]
		if c.Call.Kind == "unary" && c.Call.Unary != nil && rapid.Bool().Draw(t, "shmbig") {
			c.Call.Unary.Size = rapid.IntRange(400, 4000).Draw(t, "shmsize") // above the 256-byte gate: the result travels as a pointer
			c.Call.Unary.Outcome, c.Call.Unary.Err = "value", nil
		}
	}
	if c.Transport == "pipe" && c.Shm == "" && rapid.IntRange(0, 2).Draw(t, "peergone") == 0 {
		c.WriteFail = []int{1, 100, 250, 500, 750, 900, 999}[rapid.IntRange(0, 6).Draw(t, "peergoneat")]
		if c.Call.Kind == "stream" && len(c.Call.Inputs) > 0 && rapid.Bool().Draw(t, "peergonecast") {
			// the turn whose output cannot be written holds an input the framework had to copy
			typ := []string{"int32", "int16"}[rapid.IntRange(0, 1).Draw(t, "peergonecasttype")]
			for i := range c.Call.Inputs {
				c.Call.Inputs[i].Type = typ
			}
		}
	}
	if rapid.IntRange(0, 5).Draw(t, "ver") == 0 {
		c.Version = "1.2.3"
		v := []string{"1.2.3", "9.9.9"}[rapid.IntRange(0, 1).Draw(t, "cver")]
		c.Call.Opts.ProtocolVersion = &v
	}
	return c
}

func outstanding() int64 {
	s := vgirpc.LeakCheckSummary()
	i := strings.Index(s, "outstanding=")
	if i < 0 {
		return -1
	}
	rest := s[i+len("outstanding="):]
	j := strings.IndexByte(rest, ' ')
	n, _ := strconv.ParseInt(rest[:j], 10, 64)
	return n
}

func (c c41Case) server(origin string) (*vgirpc.Server, *vgirpc.HttpServer) {
	srv := vgirpc.NewServer()
	srv.SetServerID("leak")
	lib.RegisterScripted(srv)
	if c.Version != "" {
		srv.SetProtocolVersion(c.Version)
	}
	if c.External {
		ec := vgirpc.DefaultExternalLocationConfig(&memStore{})
		ec.ExternalizeThresholdBytes = 512
		ec.URLValidator = func(string) error { return nil }
		ec.MaxRetries = 1
		ec.RetryDelay = time.Millisecond
		srv.SetExternalLocation(ec)
	}
	h, err := vgirpc.NewHttpServerWithKey(srv, []byte("0123456789abcdef0123456789abcdef"))
	if err != nil {
		panic(err)
	}
	h.SetProducerBatchLimit(c.Limit)
	if c.MaxResp > 0 {
		h.SetMaxResponseBytes(c.MaxResp)
	}
	if c.MaxExt > 0 {
		h.SetMaxExternalizedResponseBytes(c.MaxExt)
	}
	return srv, h
}

// play runs the call once and returns a short description of what happened.
func (c c41Case) play(srv *vgirpc.Server, h *vgirpc.HttpServer, origin string, out *lib.Outcome) string {
	call := c.Call
	if c.Transport == "pipe" && c.Shm != "" {
		return c.playShm(srv, out)
	}
	if c.Transport == "pipe" {
		req, in := call.PipeBytes()
		res := lib.RunPipeFail(srv, append(append([]byte{}, req...), in...), c41FailAt)
		if c41FailAt < 0 {
			c41OutLen = len(res.Out)
		} else {
			out.Label("pipe-peer-gone")
			if c.Call.Kind == "stream" && c41FailAt > 0 {
				out.Label("pipe-peer-gone:mid-stream")
				if len(c.Call.Inputs) > 0 {
					if castable, equal := c.Call.Inputs[0].Castable(); castable && !equal {
						out.Label("pipe-peer-gone:mid-stream:cast-input")
					}
				}
			}
		}
		if res.Panic != "" {
			out.Violate("C41/panic", "panic escaped Serve: %s", lib.Short(res.Panic, 200))
		}
		return fmt.Sprintf("pipe:%d streams", len(res.Streams))
	}
	switch call.Kind {
	case "unary", "unknown", "describe":
		req, _ := call.PipeBytes()
		path := "/" + call.Method
		if call.Kind == "unknown" {
			path = "/no_such_method"
		} else if call.Kind == "describe" {
			path = "/__describe__"
		}
		if c.ExtInput != "" && call.Kind == "unary" {
			o := call.Opts
			o.Extra = append(o.Extra, [2]string{lib.KLocation, origin + "/" + c.ExtInput + "?script=" + urlq(call.Unary.JSON())})
			req = lib.BuildRequest(call.Method, lib.EmptyBatch(lib.ScriptParamSchema), o)
		}
		r := lib.PostArrow(h, path, req, nil)
		if r.Panic != "" {
			out.Violate("C41/panic", "ServeHTTP panicked: %s", lib.Short(r.Panic, 200))
		}
		return fmt.Sprintf("http:%d", r.Status)
	}
	hcall := call
	if strings.HasPrefix(c.ExtInput, "xin") {
		t := lib.HTTPInit(h, "", call, nil)
		n := 1
		for i := 0; i < 3 && t.Cursor != ""; i++ {
			ptr := lib.WithMeta(lib.EmptyBatch(lib.InSchema), []string{lib.KLocation}, []string{fmt.Sprintf("%s/%s?v=%d", origin, c.ExtInput, i+1)})
			callTok := t.CallToken
			if callTok == "" {
				callTok = firstCallTok
			} else {
				firstCallTok = callTok
			}
			t = lib.HTTPContinue(h, "", call.Method, ptr, t.Cursor, callTok, nil, nil)
			if t.Resp.Panic != "" {
				out.Violate("C41/panic", "ServeHTTP panicked: %s", lib.Short(t.Resp.Panic, 200))
			}
			n++
		}
		return fmt.Sprintf("http-ext-input:%d requests", n)
	}
	if c.ExtInput != "" {
		// init through an externally uploaded parameter batch
		o := call.Opts
		o.Extra = append(o.Extra, [2]string{lib.KLocation, origin + "/" + c.ExtInput + "?script=" + urlq(call.Stream.JSON())})
		req := lib.BuildRequest(call.Method, lib.EmptyBatch(lib.ScriptParamSchema), o)
		r := lib.PostArrow(h, "/"+call.Method+"/init", req, nil)
		if r.Panic != "" {
			out.Violate("C41/panic", "ServeHTTP panicked: %s", lib.Short(r.Panic, 200))
		}
		return fmt.Sprintf("http-ext-init:%d", r.Status)
	}
	if hcall.ConcreteKind() == "producer" {
		hcall.CancelAt = -1
		if c.Limit > 0 && call.CancelAt >= 0 {
			hcall.CancelAt = call.CancelAt % 3
		}
	}
	v := lib.RunHTTPStream(func(int) http.Handler { return h }, hcall, nil, 60)
	if v.Broken != "" && strings.HasPrefix(v.Broken, "panic") {
		out.Violate("C41/panic", "%s", v.Broken)
	}
	return fmt.Sprintf("http-stream:%d requests", v.Turns)
}

// playShm runs the call as a pipe session of a client that advertises a
// segment, optionally sends its request / exchange inputs as pointers into
// it, and resolves, releases and frees every pointer it gets back.
func (c c41Case) playShm(srv *vgirpc.Server, out *lib.Outcome) string {
	const size = 65536 + 1<<20
	seg, err := vgirpc.ShmCreate(size)
	if err != nil {
		out.Label("skipped:shm-create-failed")
		return "shm:none"
	}
	defer seg.Close()
	call := c.Call
	call.Opts.Extra = append(append([][2]string{}, call.Opts.Extra...),
		[2]string{lib.KShmSegName, seg.Name()}, [2]string{lib.KShmSegSize, strconv.Itoa(size)})
	req, in := call.PipeBytes()
	// toPtr replaces the (single) data batch of an encoded stream by a pointer into the segment
	toPtr := func(body []byte, keepMeta bool) []byte {
		ss, derr := lib.SplitStreams(body)
		if derr != nil || len(ss) != 1 {
			return body
		}
		var bs []arrow.RecordBatch
		changed := false
		for _, b := range ss[0].Batches {
			rec := lib.WithMeta(b.Rec, b.Meta.Keys(), b.Meta.Values())
			if _, cancel := b.Get(lib.KCancel); !cancel && b.Rec.NumRows() > 0 && b.Rec.NumCols() > 0 {
				if ptr, replaced, werr := vgirpc.MaybeWriteToShm(rec, seg); werr == nil && replaced {
					// my codec copies the pointer batch; the original is released at once
					cp := lib.PackBatch(ptr).Unpack()
					ptr.Release()
					rec = lib.WithMeta(cp.Rec, cp.Meta.Keys(), cp.Meta.Values())
					changed = true
				}
			}
			bs = append(bs, rec)
		}
		if !changed {
			return body
		}
		out.Label("shm:client-pointer-sent")
		return lib.EncodeStream(ss[0].Schema, bs...)
	}
	switch c.Shm {
	case "req":
		req = toPtr(req, true)
	case "in":
		if len(in) > 0 {
			in = toPtr(in, true)
		}
	}
	res := lib.RunPipe(srv, append(append([]byte{}, req...), in...))
	if res.Panic != "" {
		out.Violate("C41/panic", "panic escaped Serve: %s", lib.Short(res.Panic, 200))
	}
	// the client's duty: resolve, release, free
	ptrs := 0
	for _, st := range res.Streams {
		for _, b := range st.Batches {
			if _, ok := b.Get(lib.KShmOffset); !ok {
				continue
			}
			rb, off, rel, rerr := vgirpc.ResolveShmBatch(lib.WithMeta(b.Rec, b.Meta.Keys(), b.Meta.Values()), seg)
			if rerr == nil {
				ptrs++
				rb.Release()
				if rel {
					_ = seg.FreeOffset(off)
				}
			}
		}
	}
	out.Label("shm:" + c.Shm)
	if ptrs > 0 {
		out.Label("shm:result-pointer")
	}
	return fmt.Sprintf("pipe-shm:%d streams, %d pointers", len(res.Streams), ptrs)
}

func urlq(s string) string {
	r := strings.NewReplacer("%", "%25", "&", "%26", "+", "%2B", " ", "%20", "#", "%23", "?", "%3F")
	return r.Replace(s)
}

// originHandler serves externally "uploaded" parameter streams.
func originHandler(w http.ResponseWriter, r *http.Request) {
	script := r.URL.Query().Get("script")
	params := lib.ScriptBatch(script)
	logb := lib.WithMeta(lib.EmptyBatch(lib.ScriptParamSchema), []string{lib.KLogLevel, lib.KLogMessage}, []string{"INFO", "from upload"})
	var body []byte
	switch strings.Trim(r.URL.Path, "/") {
	case "xin32", "xin64":
		v, _ := strconv.ParseInt(r.URL.Query().Get("v"), 10, 64)
		in := lib.InputSpec{Vals: []int64{v, v + 1}, Type: map[string]string{"xin32": "int32", "xin64": "int64"}[strings.Trim(r.URL.Path, "/")]}
		b := in.Batch()
		body = lib.EncodeStream(b.Schema(), b)
	case "params":
		body = lib.EncodeStream(lib.ScriptParamSchema, params)
	case "params+logs":
		body = lib.EncodeStream(lib.ScriptParamSchema, logb, params, logb)
	case "two-data":
		body = lib.EncodeStream(lib.ScriptParamSchema, params, params)
	case "cut-in-second":
		// the upload was cut off inside its second batch: the first one is complete
		one := lib.EncodeStream(lib.ScriptParamSchema, params)
		body = lib.EncodeStream(lib.ScriptParamSchema, params, params)
		body = body[:len(one)-8+(len(body)-len(one))/2]
	case "cut-eos":
		// only the end-of-stream marker is damaged
		body = lib.EncodeStream(lib.ScriptParamSchema, params)
		body = body[:len(body)-3]
	default:
		body = lib.EncodeStream(lib.ScriptParamSchema, params)
		body = body[:len(body)/2]
	}
	w.Header().Set("Content-Type", lib.ArrowCT)
	w.Write(body)
}

var origin *httptest.Server
var firstCallTok string

func runC41(c c41Case) (out lib.Outcome) {
	lib.ResetEvents()
	srv, h := c.server(origin.URL)
	out.Label("transport:"+c.Transport, "kind:"+c.Call.Kind)
	if c.ExtInput != "" {
		out.Label("external-input:" + c.ExtInput)
	}
	if c.External {
		out.Label("external-storage")
	}
	if c.MaxResp > 0 {
		out.Label("response-cap")
	}
	if c.MaxExt > 0 {
		out.Label("externalized-cap:" + c.Call.Kind)
	}
	// first run warms any per-server lazily cached allocation (describe hash, pages)
	base := outstanding()
	c.play(srv, h, origin.URL, &out)
	a := outstanding()
	c41FailAt = -1
	if c.Transport == "pipe" && c.Shm == "" && c.WriteFail > 0 {
		c41FailAt = c41OutLen * c.WriteFail / 1000
	}
	what := c.play(srv, h, origin.URL, &out)
	c41FailAt = -1
	b := outstanding()
	failing := false
	if f, ok := c.Call.Fails(); ok && f {
		failing = true
	}
	if c.Call.Kind == "stream" && c.Call.InitSucceeds() {
		for _, t := range c.Call.Stream.Turns {
			if t.Act != "emit" && t.Act != "finish" {
				failing = true
			}
		}
	}
	out.NonTrivial = failing || c.ExtInput != "" || c.MaxResp > 0
	if failing {
		out.Label("failing-path")
	}
	if b != a {
		site := c.Call.Kind
		if c.Call.Kind == "stream" {
			site = "stream-" + c.Call.ConcreteKind()
		}
		extra := ""
		if c.ExtInput != "" {
			extra = "extinput-" + c.ExtInput
		}
		out.Violate(lib.Keyf("C41", "leak", c.Transport, site, extra), "outstanding Arrow allocation grew by %d bytes across one %s call (%s): %d -> %d -> %d (base before first run %d)", b-a, c.Transport, what, base, a, b, base)
	}
	return
}

var propC41 = lib.Prop[c41Case]{
	ID: "C41",
	Rule: "one scripted call per case (every call kind of the pipe histories: unary outcomes, bad parameters, refusals, streams with every turn outcome, casts and cast failures, cancels; over HTTP also response-cap refusals, externalised results, and parameters supplied through an external pointer whose fetched stream is params / logs+params / two data batches / truncated; on the pipe a fifth of the judged runs lose their peer after a drawn fraction of the output), run twice on one server built with -tags leakcheck. " +
		"Oracle: the framework's outstanding Arrow bytes (LeakCheckSummary) after the second run equal those after the first (the first run absorbs per-server lazily cached allocations). Non-trivial: a failing path, an external input, or a response cap.",
	Gen:          genC41,
	Run:          runC41,
	Essential:    []string{"pipe-peer-gone:mid-stream", "pipe-peer-gone:mid-stream:cast-input", "transport:pipe", "transport:http", "failing-path", "external-input:params+logs", "external-input:cut-in-second", "shm:req", "shm:in", "shm:result-pointer", "shm:client-pointer-sent", "response-cap", "externalized-cap:unary", "externalized-cap:stream", "kind:stream"},
	EssentialMin: 300,
	Assumptions:  []string{"only buffers taken from the package's checked allocator are counted; batches the IPC reader decodes with arrow's default allocator and handler-built batches are outside it"},
}

func TestC41(t *testing.T) { lib.Check(t, propC41) }

func TestMain(m *testing.M) {
	origin = httptest.NewServer(http.HandlerFunc(originHandler))
	code := m.Run()
	origin.Close()
	os.Exit(code)
}
