// Package g_leak holds the C41 check; its test file is built only with -tags leakcheck.
package g_leak
