package g_obs

import (
	"bytes"
	"context"
	"fmt"
	"net/http"
	"sort"
	"strings"
	"sync"
	"testing"

	vgiotel "github.com/Query-farm/vgi-rpc-go/vgirpc/otel"
	"go.opentelemetry.io/otel/codes"
	"go.opentelemetry.io/otel/propagation"
	sdkmetric "go.opentelemetry.io/otel/sdk/metric"
	"go.opentelemetry.io/otel/sdk/metric/metricdata"
	sdktrace "go.opentelemetry.io/otel/sdk/trace"
	"go.opentelemetry.io/otel/sdk/trace/tracetest"
	"go.opentelemetry.io/otel/trace"
	"go.opentelemetry.io/otel/trace/embedded"
	"pgregory.net/rapid"

	"verifharness/lib"
)

// C43 — the OpenTelemetry hook ends every span it starts with the call's outcome.

type c43Trace struct {
	Kind    string `json:"kind"` // none | sampled | unsampled | malformed
	TraceID string `json:"trace_id,omitempty"`
	SpanID  string `json:"span_id,omitempty"`
	State   string `json:"state,omitempty"`
	Raw     string `json:"raw,omitempty"` // malformed: the header value as sent
	Via     string `json:"via,omitempty"` // HTTP only: header | meta
}

func (tr c43Trace) header() string {
	switch tr.Kind {
	case "sampled":
		return "00-" + tr.TraceID + "-" + tr.SpanID + "-01"
	case "unsampled":
		return "00-" + tr.TraceID + "-" + tr.SpanID + "-00"
	case "malformed":
		return tr.Raw
	}
	return ""
}

type c43PipeCall struct {
	Call  lib.CallSpec `json:"call"`
	Trace c43Trace     `json:"trace"`
}

type c43Case struct {
	Transport        string        `json:"transport"` // pipe | http
	Tracing          bool          `json:"tracing"`
	Metrics          bool          `json:"metrics"`
	RecordExceptions bool          `json:"record_exceptions"`
	Sampler          string        `json:"sampler"` // always | parentbased
	// Ambient: the server runs under a base context that already carries a live
	// recording span of the embedding application (a worker lifecycle span on
	// the pipe, a middleware span over HTTP) from another tracer provider.
	Ambient bool `json:"ambient,omitempty"`
	PipeCalls        []c43PipeCall `json:"pipe_calls,omitempty"`
	HTTPCalls        []hCall       `json:"http_calls,omitempty"`
	HTTPTraces       []c43Trace    `json:"http_traces,omitempty"`
	BatchLimit       int           `json:"batch_limit,omitempty"`
}

func genC43Trace(t *rapid.T) c43Trace {
	tr := c43Trace{Kind: []string{"none", "sampled", "sampled", "sampled", "unsampled", "malformed"}[rapid.IntRange(0, 5).Draw(t, "tpkind")]}
	switch tr.Kind {
	case "sampled", "unsampled":
		tr.TraceID = genHex(t, 32, "tptrace")
		tr.SpanID = genHex(t, 16, "tpspan")
		if rapid.Bool().Draw(t, "tpstate") {
			tr.State = []string{"vendor=abc", "a=1,b=2", "rojo=00f067aa0ba902b7"}[rapid.IntRange(0, 2).Draw(t, "tpstatev")]
		}
	case "malformed":
		tr.Raw = []string{"garbage", "00-zz-yy-01", "00-00000000000000000000000000000000-0000000000000000-01", "ff-" + strings.Repeat("1", 32) + "-" + strings.Repeat("2", 16) + "-01", "00-" + strings.Repeat("1", 31) + "-" + strings.Repeat("2", 16) + "-01"}[rapid.IntRange(0, 4).Draw(t, "tpraw")]
	}
	return tr
}

func genC43(t *rapid.T) c43Case {
	c := c43Case{Transport: "pipe", Tracing: true, Metrics: true, RecordExceptions: true, Sampler: "parentbased"}
	if rapid.Bool().Draw(t, "transport") {
		c.Transport = "http"
	}
	c.Tracing = rapid.IntRange(0, 5).Draw(t, "tracing") != 0
	c.Metrics = rapid.IntRange(0, 5).Draw(t, "metrics") != 0
	c.RecordExceptions = rapid.Bool().Draw(t, "recordexc")
	if rapid.IntRange(0, 2).Draw(t, "sampler") == 0 {
		c.Sampler = "always"
	}
	c.Ambient = rapid.IntRange(0, 3).Draw(t, "ambient") == 0
	if c.Transport == "pipe" {
		n := rapid.IntRange(1, 10).Draw(t, "ncalls")
		for i := 0; i < n; i++ {
			var call lib.CallSpec
			for {
				call = lib.GenCall(t, lib.CallID(i))
				// only the call kinds whose dispatch status the documentation decides
				if call.Kind == "unary" || call.Kind == "stream" || call.Kind == "unknown" || call.Kind == "describe" {
					break
				}
			}
			call.Opts.RequestID = fmt.Sprintf("rid-%d", i)
			c.PipeCalls = append(c.PipeCalls, c43PipeCall{Call: call, Trace: genC43Trace(t)})
		}
		return c
	}
	c.BatchLimit = rapid.IntRange(1, 3).Draw(t, "limit")
	n := rapid.IntRange(1, 5).Draw(t, "ncalls")
	for i := 0; i < n; i++ {
		call := genHCall(t, i)
		call.Accept, call.ReqZstd = "", false // compression is not this property's subject
		call.RequestID = fmt.Sprintf("rid-%d", i)
		tr := genC43Trace(t)
		if tr.Kind != "none" && rapid.IntRange(0, 3).Draw(t, "tpvia") == 0 {
			tr.Via = "meta"
		}
		call.Traceparent, call.Tracestate, call.TraceVia = tr.header(), tr.State, tr.Via
		c.HTTPCalls = append(c.HTTPCalls, call)
		c.HTTPTraces = append(c.HTTPTraces, tr)
	}
	return c
}

// ---- a TracerProvider wrapper that counts End calls per span ----

type endCounter struct {
	mu     sync.Mutex
	ends   map[trace.SpanID]int
	starts int
}

type countingTP struct {
	embedded.TracerProvider
	inner trace.TracerProvider
	ec    *endCounter
}

func (p *countingTP) Tracer(name string, opts ...trace.TracerOption) trace.Tracer {
	return &countingTracer{inner: p.inner.Tracer(name, opts...), ec: p.ec}
}

type countingTracer struct {
	embedded.Tracer
	inner trace.Tracer
	ec    *endCounter
}

func (tr *countingTracer) Start(ctx context.Context, name string, opts ...trace.SpanStartOption) (context.Context, trace.Span) {
	ctx, span := tr.inner.Start(ctx, name, opts...)
	tr.ec.mu.Lock()
	tr.ec.starts++
	tr.ec.mu.Unlock()
	cs := &countingSpan{Span: span, ec: tr.ec}
	return trace.ContextWithSpan(ctx, cs), cs
}

type countingSpan struct {
	trace.Span
	ec *endCounter
}

func (s *countingSpan) End(opts ...trace.SpanEndOption) {
	s.ec.mu.Lock()
	s.ec.ends[s.Span.SpanContext().SpanID()]++
	s.ec.mu.Unlock()
	s.Span.End(opts...)
}

type otelRig struct {
	rec    *tracetest.SpanRecorder
	reader *sdkmetric.ManualReader
	ec     *endCounter
	tp     *sdktrace.TracerProvider
	mp     *sdkmetric.MeterProvider
}

func newOtelRig(c c43Case) (*otelRig, vgiotel.OtelConfig) {
	r := &otelRig{rec: tracetest.NewSpanRecorder(), reader: sdkmetric.NewManualReader(), ec: &endCounter{ends: map[trace.SpanID]int{}}}
	opts := []sdktrace.TracerProviderOption{sdktrace.WithSpanProcessor(r.rec)}
	if c.Sampler == "always" {
		opts = append(opts, sdktrace.WithSampler(sdktrace.AlwaysSample()))
	} else {
		opts = append(opts, sdktrace.WithSampler(sdktrace.ParentBased(sdktrace.AlwaysSample())))
	}
	r.tp = sdktrace.NewTracerProvider(opts...)
	r.mp = sdkmetric.NewMeterProvider(sdkmetric.WithReader(r.reader))
	cfg := vgiotel.OtelConfig{
		TracerProvider:   &countingTP{inner: r.tp, ec: r.ec},
		MeterProvider:    r.mp,
		Propagator:       propagation.TraceContext{},
		EnableTracing:    c.Tracing,
		EnableMetrics:    c.Metrics,
		RecordExceptions: c.RecordExceptions,
	}
	return r, cfg
}

func (r *otelRig) shutdown() {
	_ = r.tp.Shutdown(context.Background())
	_ = r.mp.Shutdown(context.Background())
}

// recording: whether the SDK gives the hook a recording span for this call.
func (c c43Case) recording(tr c43Trace) bool {
	if !c.Tracing {
		return false
	}
	return !(tr.Kind == "unsampled" && c.Sampler == "parentbased")
}

func spanAttr(s sdktrace.ReadOnlySpan, key string) string {
	for _, kv := range s.Attributes() {
		if string(kv.Key) == key {
			return kv.Value.Emit()
		}
	}
	return ""
}

// judgeSpan checks one ended span against the call it belongs to.
// rootSpans returns the spans of one dispatch that have no parent among them:
// the dispatch span itself; spans started under it (per turn, per fetch) are
// the hook's own business.
func rootSpans(group []sdktrace.ReadOnlySpan) []sdktrace.ReadOnlySpan {
	ids := map[[8]byte]bool{}
	for _, s := range group {
		ids[s.SpanContext().SpanID()] = true
	}
	var out []sdktrace.ReadOnlySpan
	for _, s := range group {
		if !ids[s.Parent().SpanID()] {
			out = append(out, s)
		}
	}
	return out
}

func judgeSpan(out *lib.Outcome, c c43Case, rig *otelRig, s sdktrace.ReadOnlySpan, tr c43Trace, failed bool, method, where string) {
	if n := func() int { rig.ec.mu.Lock(); defer rig.ec.mu.Unlock(); return rig.ec.ends[s.SpanContext().SpanID()] }(); n != 1 {
		out.Violate(lib.Keyf("C43", "span-end-count", where), "%s: the hook called End %d times on the span of %s", where, n, method)
	}
	if s.EndTime().IsZero() {
		out.Violate(lib.Keyf("C43", "span-not-ended", where), "%s: recorded span of %s has no end time", where, method)
	}
	isErr := s.Status().Code == codes.Error
	switch {
	case failed && !isErr:
		out.Violate(lib.Keyf("C43", "status-not-error-on-failed-call", where), "%s %s: the client-visible response reports an error but the span status is %v (%q)", where, method, s.Status().Code, s.Status().Description)
	case !failed && isErr:
		out.Violate(lib.Keyf("C43", "status-error-on-successful-call", where), "%s %s: the call succeeded but the span status is Error (%q)", where, method, s.Status().Description)
	}
	if m := spanAttr(s, "rpc.method"); m != method {
		out.Violate(lib.Keyf("C43", "span-names-other-method", where), "%s: span of call to %s has rpc.method=%q", where, method, m)
	}
	switch tr.Kind {
	case "sampled", "unsampled":
		p := s.Parent()
		if p.TraceID().String() != tr.TraceID || p.SpanID().String() != tr.SpanID || s.SpanContext().TraceID().String() != tr.TraceID {
			out.Violate(lib.Keyf("C43", "parent-not-traceparent", where, "via="+tr.Via), "%s %s: sent traceparent %s, span has trace %s parent (%s, %s)", where, method, tr.header(),
				s.SpanContext().TraceID(), p.TraceID(), p.SpanID())
		} else {
			out.Label("parented")
			if tr.State != "" && p.TraceState().String() == tr.State {
				out.Label("tracestate-carried")
			}
		}
	}
}

type metricKey struct{ method, status string }

func (r *otelRig) requestCounts() (map[metricKey]int64, bool, error) {
	var rm metricdata.ResourceMetrics
	if err := r.reader.Collect(context.Background(), &rm); err != nil {
		return nil, false, err
	}
	out := map[metricKey]int64{}
	found := false
	for _, sm := range rm.ScopeMetrics {
		for _, m := range sm.Metrics {
			if m.Name != "rpc.server.requests" {
				continue
			}
			found = true
			sum, ok := m.Data.(metricdata.Sum[int64])
			if !ok {
				return nil, true, fmt.Errorf("rpc.server.requests is %T, not an int64 sum", m.Data)
			}
			for _, dp := range sum.DataPoints {
				method, _ := dp.Attributes.Value("rpc.method")
				status, _ := dp.Attributes.Value("status")
				out[metricKey{method.AsString(), status.AsString()}] += dp.Value
			}
		}
	}
	return out, found, nil
}

func pipeFamilyMethod(m string) bool {
	k, _ := lib.MethodKind(m)
	return k != ""
}

func runC43(c c43Case) (out lib.Outcome) {
	lib.ResetEvents()
	rig, cfg := newOtelRig(c)
	defer rig.shutdown()
	srv := newObsServer()
	vgiotel.InstrumentServer(srv, cfg)
	out.Label("transport:"+c.Transport, fmt.Sprintf("tracing:%v", c.Tracing), fmt.Sprintf("metrics:%v", c.Metrics), "sampler:"+c.Sampler)

	var base context.Context
	wrap := func(h http.Handler) http.Handler { return h }
	if c.Ambient {
		out.Label("ambient-span")
		tp := sdktrace.NewTracerProvider(sdktrace.WithSampler(sdktrace.AlwaysSample()))
		defer tp.Shutdown(context.Background())
		ctx, span := tp.Tracer("embedding-app").Start(context.Background(), "lifecycle")
		defer span.End()
		base = ctx
		wrap = func(h http.Handler) http.Handler {
			return http.HandlerFunc(func(w http.ResponseWriter, r *http.Request) {
				h.ServeHTTP(w, r.WithContext(trace.ContextWithSpan(r.Context(), span)))
			})
		}
	}
	want := map[metricKey]int64{}
	dispatched := 0
	note := func(method string, failed bool, tr c43Trace) {
		dispatched++
		st := "ok"
		if failed {
			st = "error"
		}
		want[metricKey{method, st}]++
		out.Label("trace:" + tr.Kind)
		if failed {
			out.Label("failed")
			if tr.Kind == "sampled" || tr.Kind == "unsampled" {
				out.Label("failed-with-traceparent")
				out.NonTrivial = true
			}
		}
	}

	if c.Transport == "pipe" {
		var input bytes.Buffer
		expected := make([]int, len(c.PipeCalls))
		total := 0
		for i, pc := range c.PipeCalls {
			call := pc.Call
			if h := pc.Trace.header(); h != "" {
				call.Opts.Extra = append(call.Opts.Extra, [2]string{"traceparent", h})
				if pc.Trace.State != "" {
					call.Opts.Extra = append(call.Opts.Extra, [2]string{"tracestate", pc.Trace.State})
				}
			}
			req, in := call.PipeBytes()
			input.Write(req)
			input.Write(in)
			expected[i] = call.ExpectedStreams()
			total += expected[i]
		}
		res := lib.RunPipeCtx(base, srv, input.Bytes())
		if res.Panic != "" || res.DecodeErr != nil || len(res.Streams) != total {
			out.Skipped = true // framing of the session is C02/C03's subject
			out.Label("skipped:session-out-of-frame")
			return
		}
		ended := rig.rec.Ended()
		byRID := map[string][]sdktrace.ReadOnlySpan{}
		for _, s := range ended {
			rid := spanAttr(s, "rpc.vgi_rpc.request_id")
			byRID[rid] = append(byRID[rid], s)
		}
		pos := 0
		expectSpans := 0
		for i, pc := range c.PipeCalls {
			group := res.Streams[pos : pos+expected[i]]
			pos += expected[i]
			call := pc.Call
			out.Label("call:" + call.Kind)
			if call.Kind != "unary" && call.Kind != "stream" {
				continue // not dispatched to a handler: the statement is silent
			}
			failed := false
			for _, st := range group {
				for _, b := range st.Batches {
					if b.Kind() == "error" {
						failed = true
					}
				}
			}
			note(call.Method, failed, pc.Trace)
			mine := byRID[fmt.Sprintf("rid-%d", i)]
			where := "pipe-" + call.Kind
			if !c.recording(pc.Trace) {
				if len(mine) != 0 {
					out.Violate(lib.Keyf("C43", "span-unexpected", where), "call #%d: tracing=%v trace=%s sampler=%s, yet %d spans ended", i, c.Tracing, pc.Trace.Kind, c.Sampler, len(mine))
				}
				continue
			}
			expectSpans++
			root := rootSpans(mine)
			if len(root) != 1 {
				out.Violate(lib.Keyf("C43", "span-count", where), "call #%d (%s %s, failed=%v) ended %d spans of which %d have no parent among them, expected one dispatch span", i, call.Kind, call.Method, failed, len(mine), len(root))
				continue
			}
			judgeSpan(&out, c, rig, root[0], pc.Trace, failed, call.Method, where)
		}
		_ = expectSpans
	} else {
		hs := wrap(newObsHTTP(srv, c.BatchLimit))
		seen := 0
		for ci, call := range c.HTTPCalls {
			tr := c.HTTPTraces[ci]
			out.Label("call:" + call.Kind)
			driveHCall(hs, call, nil, func(st hStep) {
				ended := rig.rec.Ended()
				fresh := ended[seen:]
				seen = len(ended)
				if st.Resp.Panic != "" {
					out.Label("skipped:http-panic")
					return
				}
				stepTrace := tr
				if st.Phase == "cont" && tr.Via == "meta" {
					// a continuation has no request metadata: nothing was sent
					stepTrace = c43Trace{Kind: "none"}
				}
				note(call.Method, st.Failed, stepTrace)
				where := "http-" + st.Phase
				if !c.recording(stepTrace) {
					if len(fresh) != 0 {
						out.Violate(lib.Keyf("C43", "span-unexpected", where), "%s: tracing=%v trace=%s sampler=%s, yet %d spans ended", st.Path, c.Tracing, stepTrace.Kind, c.Sampler, len(fresh))
					}
					return
				}
				root := rootSpans(fresh)
				if len(root) != 1 {
					out.Violate(lib.Keyf("C43", "span-count", where), "%s (failed=%v) ended %d spans of which %d have no parent among them, expected one dispatch span", st.Path, st.Failed, len(fresh), len(root))
					return
				}
				judgeSpan(&out, c, rig, root[0], stepTrace, st.Failed, call.Method, where)
				if st.Phase == "cont" {
					out.Label("continuation-span")
				}
			})
		}
	}

	// every span the hook started has ended, exactly once
	started, ended := rig.rec.Started(), rig.rec.Ended()
	if len(started) != len(ended) {
		out.Violate("C43/span-leaked", "%d spans started, %d ended after the history completed", len(started), len(ended))
	}
	ids := map[trace.SpanID]int{}
	for _, s := range ended {
		ids[s.SpanContext().SpanID()]++
	}
	rig.ec.mu.Lock()
	for id, n := range rig.ec.ends {
		if n > 1 {
			out.Violate("C43/span-end-count-total", "End was called %d times on span %s", n, id)
		}
	}
	rig.ec.mu.Unlock()
	if !c.Tracing && len(started) != 0 {
		out.Violate("C43/span-with-tracing-off", "tracing disabled, yet %d spans were started", len(started))
	}

	// request metric
	got, found, err := rig.requestCounts()
	if err != nil {
		out.Violate("C43/metric-unreadable", "%v", err)
		return
	}
	if !c.Metrics {
		var n int64
		for _, v := range got {
			n += v
		}
		if n != 0 {
			out.Violate("C43/metric-with-metrics-off", "metrics disabled, yet rpc.server.requests counted %d", n)
		}
		return
	}
	if dispatched > 0 && !found {
		out.Violate("C43/metric-missing", "%d calls dispatched, rpc.server.requests has no data", dispatched)
		return
	}
	keys := map[metricKey]bool{}
	for k := range got {
		if c.Transport == "pipe" && !pipeFamilyMethod(k.method) {
			continue
		}
		keys[k] = true
	}
	for k := range want {
		keys[k] = true
	}
	sorted := make([]metricKey, 0, len(keys))
	for k := range keys {
		sorted = append(sorted, k)
	}
	sort.Slice(sorted, func(i, j int) bool {
		if sorted[i].method != sorted[j].method {
			return sorted[i].method < sorted[j].method
		}
		return sorted[i].status < sorted[j].status
	})
	var wantTotal, gotTotal int64
	for _, k := range sorted {
		wantTotal += want[k]
		gotTotal += got[k]
	}
	if wantTotal != gotTotal {
		out.Violate("C43/metric-total", "%d calls dispatched, rpc.server.requests counts %d (%v)", wantTotal, gotTotal, got)
		return
	}
	for _, k := range sorted {
		if want[k] != got[k] {
			out.Violate(lib.Keyf("C43", "metric-status", k.status), "rpc.server.requests{method=%s,status=%s} = %d, the history had %d such calls (all: %v)", k.method, k.status, got[k], want[k], got)
			break
		}
	}
	return
}

var propC43 = lib.Prop[c43Case]{
	ID: "C43",
	Rule: "histories on a scripted service instrumented with vgiotel.InstrumentServer (in-memory span recorder behind an End-counting TracerProvider wrapper, ManualReader, explicit W3C TraceContext propagator): " +
		"pipe sessions of 1-10 calls (unary / stream incl. bad parameters, init failures, turn errors, cancel; unknown method; describe) with traceparent/tracestate as request metadata, or HTTP histories of 1-5 calls " +
		"(unary, producer with batch limit 1-3 followed to the end, exchange of 1-3 turns, optional cancel) with the trace context in the Traceparent/Tracestate headers of every request or in the request metadata; " +
		"trace context none / sampled / unsampled / malformed; tracing and metrics toggled; RecordExceptions toggled; sampler AlwaysSample or ParentBased. " +
		"Oracle: one ended span per dispatched call whose span records (none when tracing is off or the parent is unsampled under ParentBased), End called exactly once, status Error iff the client-visible response reports an error, " +
		"parent span/trace id = the sent traceparent's, started = ended after the history; rpc.server.requests per (method,status) = the history's calls. Non-trivial: a failing call that carried a traceparent.",
	Gen:          genC43,
	Run:          runC43,
	Essential:    []string{"transport:pipe", "transport:http", "tracing:true", "tracing:false", "metrics:true", "metrics:false", "failed-with-traceparent", "parented", "continuation-span", "trace:unsampled", "trace:malformed", "trace:none", "sampler:always", "sampler:parentbased", "ambient-span"},
	EssentialMin: 200,
	Assumptions: []string{
		"'the call failed' is judged from the client-visible response (an EXCEPTION batch, X-VGI-RPC-Error or a 4xx/5xx status)",
		"on HTTP every request that reaches a handler dispatch (unary, /init, /exchange) is one dispatch; pipe stream calls are one dispatch for the whole stream",
	},
}

func TestC43(t *testing.T) { lib.Check(t, propC43) }
