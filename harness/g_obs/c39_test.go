package g_obs

import (
	"bytes"
	"context"
	"errors"
	"fmt"
	"runtime"
	"strings"
	"sync"
	"sync/atomic"
	"testing"
	"time"

	"github.com/Query-farm/vgi-rpc-go/vgirpc"
	"pgregory.net/rapid"

	"verifharness/lib"
)

// C39 — access-log sampling and async emission lose nothing silently.
//
// The sampler and the async emitter are unexported; both are driven through
// the exported hook (NewAccessLogHook + SetSampleRate / SetAsync / Close +
// OnDispatchStart/OnDispatchEnd), and the sampling clause additionally through
// real HTTP dispatches.

type c39Rec struct {
	Stream int  `json:"stream"` // index into StreamIDs, -1 = a unary record
	RID    int  `json:"rid"`    // index into the request-id pool, -1 = none
	Err    bool `json:"err,omitempty"`
}

type c39Async struct {
	Queue      int    `json:"queue"`
	Writer     string `json:"writer"`      // blocked | slow | fast
	Producers  []int  `json:"producers"`   // records enqueued by each goroutine before the close
	Racing     []int  `json:"racing"`      // records enqueued by each goroutine concurrently with Close
	AfterClose int    `json:"after_close"` // records fed after Close returned
	// Sample > 0: the async hook also samples at this rate (both options on one hook)
	Sample float64 `json:"sample,omitempty"`
	// Swap, when set, is a second scenario on its own hook: the writer is
	// parked inside a write, SetAsync is called again (which closes the
	// previous emitter and waits for it to drain) while the racers enqueue.
	Swap *c39Swap `json:"swap,omitempty"`
}

type c39Swap struct {
	Queue1  int   `json:"queue1"`
	Queue2  int   `json:"queue2"`
	Prefill int   `json:"prefill"` // records enqueued alone before the swap (beyond the one the writer is parked on)
	Racers  []int `json:"racers"`  // records enqueued by each goroutine concurrently with the swap
	Yield   int   `json:"yield"`   // scheduler yields the swapper makes before calling SetAsync
}

type c39Case struct {
	Rate      float64  `json:"rate"`
	StreamIDs []string `json:"stream_ids"`
	Records   []c39Rec `json:"records"`
	// sampling through real HTTP dispatches
	HTTPCalls  []hCall  `json:"http_calls,omitempty"`
	BatchLimit int      `json:"batch_limit,omitempty"`
	Async      c39Async `json:"async"`
}

func genC39(t *rapid.T) c39Case {
	var c c39Case
	rates := []float64{0, 1e-9, 0.5, 0.5, 1, 0.25, 0.75, 0.999999999}
	if k := rapid.IntRange(0, len(rates)).Draw(t, "ratek"); k < len(rates) {
		c.Rate = rates[k]
	} else {
		c.Rate = rapid.Float64Range(0, 1).Draw(t, "rate")
	}
	ns := rapid.IntRange(1, 6).Draw(t, "nstreams")
	for i := 0; i < ns; i++ {
		c.StreamIDs = append(c.StreamIDs, genHex(t, 32, "streamid"))
	}
	n := rapid.IntRange(1, 40).Draw(t, "nrecords")
	for i := 0; i < n; i++ {
		r := c39Rec{Stream: -1, RID: rapid.IntRange(-1, 5).Draw(t, "rid")}
		if rapid.IntRange(0, 2).Draw(t, "isstream") != 0 {
			r.Stream = rapid.IntRange(0, ns-1).Draw(t, "stream")
		}
		r.Err = rapid.IntRange(0, 3).Draw(t, "err") == 0
		c.Records = append(c.Records, r)
	}
	if rapid.IntRange(0, 3).Draw(t, "real") == 0 {
		c.BatchLimit = rapid.IntRange(1, 2).Draw(t, "limit")
		nc := rapid.IntRange(1, 3).Draw(t, "nhttp")
		for i := 0; i < nc; i++ {
			call := genHCall(t, i)
			call.BadParams = ""                   // a refused init leaves nothing to group
			call.Accept, call.ReqZstd = "", false // compression is C38's subject and costs ~50 ms per response
			c.HTTPCalls = append(c.HTTPCalls, call)
		}
	}
	a := &c.Async
	a.Queue = []int{1, 1, 2, 3, 8, 64}[rapid.IntRange(0, 5).Draw(t, "queuek")]
	if rapid.IntRange(0, 2).Draw(t, "queuerand") == 0 {
		a.Queue = rapid.IntRange(1, 64).Draw(t, "queue")
	}
	a.Writer = []string{"blocked", "blocked", "slow", "fast"}[rapid.IntRange(0, 3).Draw(t, "writer")]
	np := rapid.IntRange(1, 8).Draw(t, "nproducers")
	for i := 0; i < np; i++ {
		a.Producers = append(a.Producers, rapid.IntRange(0, 40).Draw(t, "nenq"))
	}
	nr := rapid.IntRange(0, 4).Draw(t, "nracing")
	for i := 0; i < nr; i++ {
		a.Racing = append(a.Racing, rapid.IntRange(1, 30).Draw(t, "nrace"))
	}
	a.AfterClose = rapid.IntRange(0, 3).Draw(t, "afterclose")
	a.Sample = []float64{0, 0, 0.3, 0.5, 0.7}[rapid.IntRange(0, 4).Draw(t, "asyncsample")]
	if rapid.IntRange(0, 2).Draw(t, "swap?") == 0 {
		sw := &c39Swap{}
		sw.Queue1 = []int{1, 2, 8, 64}[rapid.IntRange(0, 3).Draw(t, "swapq1")]
		sw.Queue2 = []int{1, 2, 8, 64}[rapid.IntRange(0, 3).Draw(t, "swapq2")]
		sw.Prefill = rapid.IntRange(0, 4).Draw(t, "swapprefill")
		nsw := rapid.IntRange(1, 8).Draw(t, "swapracers")
		for i := 0; i < nsw; i++ {
			sw.Racers = append(sw.Racers, rapid.IntRange(1, 60).Draw(t, "swapn"))
		}
		sw.Yield = rapid.IntRange(0, 3).Draw(t, "swapyield")
		a.Swap = sw
	}
	return c
}

func feedHook(h *vgirpc.AccessLogHook, info vgirpc.DispatchInfo, err error) {
	ctx, tok := h.OnDispatchStart(context.Background(), info)
	h.OnDispatchEnd(ctx, tok, info, nil, err)
}

func baseInfo(method, methodType string) vgirpc.DispatchInfo {
	return vgirpc.DispatchInfo{
		Method: method, MethodType: methodType, ServerID: "srv-obs", Protocol: "ObsService",
		ProtocolHash: strings.Repeat("a", 64), Auth: vgirpc.Anonymous(),
	}
}

// ---- sampling ----

type fate struct{ kept, dropped int }

func runC39Sampling(c c39Case, out *lib.Outcome) {
	sink := &lockedBuf{}
	hook := vgirpc.NewAccessLogHook(sink, "")
	if err := hook.SetSampleRate(c.Rate); err != nil {
		out.Violate("C39/sample-rate-rejected", "SetSampleRate(%v) inside 0..1 was rejected: %v", c.Rate, err)
		return
	}
	out.Label(rateLabel(c.Rate))
	groups := map[string]*fate{}
	var order []string
	off := 0
	for i, r := range c.Records {
		info := baseInfo(fmt.Sprintf("m%d", i), vgirpc.DispatchMethodUnary)
		key := ""
		if r.RID >= 0 {
			info.RequestID = fmt.Sprintf("req-%d", r.RID)
			key = "request:" + info.RequestID
		}
		if r.Stream >= 0 {
			info.MethodType = vgirpc.DispatchMethodStream
			info.StreamID = c.StreamIDs[r.Stream]
			key = "stream:" + info.StreamID
		}
		var err error
		if r.Err {
			err = errors.New("boom")
		}
		feedHook(hook, info, err)
		lines, _ := splitLines(sink.From(off))
		off = sink.Len()
		if len(lines) > 1 {
			out.Violate("C39/sample-duplicated", "one dispatch produced %d lines", len(lines))
			continue
		}
		kept := len(lines) == 1
		if kept && lines[0].Rec == nil {
			out.Violate("C39/sample-line-not-json", "line is not a JSON object: %q", lib.Short(lines[0].Raw, 200))
			continue
		}
		if kept {
			if m, _ := asString(lines[0].Rec["method"]); m != info.Method {
				out.Violate("C39/sample-wrong-record", "fed %s, line describes %q", info.Method, m)
				continue
			}
		}
		if r.Err {
			if !kept {
				out.Violate(lib.Keyf("C39", "sample-error-dropped", rateLabel(c.Rate)), "error record #%d (%s, rate %v) was sampled out", i, key, c.Rate)
			} else if c.Rate < 1 {
				out.Label("sample:error-kept")
			}
			continue
		}
		if c.Rate >= 1 {
			if !kept {
				out.Violate("C39/sample-dropped-at-rate-1", "record #%d dropped at rate %v", i, c.Rate)
			}
			continue
		}
		if kept {
			got, ok := asFloat(lines[0].Rec["sample_rate"])
			if !ok || got != c.Rate {
				out.Violate("C39/sample-rate-not-stamped", "kept non-error record #%d carries sample_rate=%v, configured rate %v", i, lines[0].Rec["sample_rate"], c.Rate)
			}
		}
		if key == "" {
			continue // neither identifier: the statement assigns no shared fate
		}
		g := groups[key]
		if g == nil {
			g = &fate{}
			groups[key] = g
			order = append(order, key)
		}
		if kept {
			g.kept++
		} else {
			g.dropped++
		}
	}
	for _, key := range order {
		g := groups[key]
		kind := key[:strings.IndexByte(key, ':')]
		switch {
		case g.kept > 0 && g.dropped > 0:
			out.Violate(lib.Keyf("C39", "sample-group-split", kind), "non-error records sharing %s: %d kept, %d dropped (rate %v)", key, g.kept, g.dropped, c.Rate)
		case g.kept > 1:
			out.Label("sample:group-kept")
		case g.dropped > 1:
			out.Label("sample:group-dropped")
		}
	}
}

func rateLabel(r float64) string {
	switch {
	case r == 0:
		return "rate:0"
	case r >= 1:
		return "rate:1"
	case r < 1e-6:
		return "rate:tiny"
	}
	return "rate:mid"
}

// runC39Real samples real HTTP dispatches: a stream's init and continuations
// share a stream id, so they share a fate; failing requests are always logged.
func runC39Real(c c39Case, out *lib.Outcome) {
	if len(c.HTTPCalls) == 0 {
		return
	}
	out.Label("sample:real-http")
	sink := &lockedBuf{}
	hook := vgirpc.NewAccessLogHook(sink, "")
	if err := hook.SetSampleRate(c.Rate); err != nil {
		return
	}
	srv := newObsServer()
	srv.SetDispatchHook(hook)
	hs := newObsHTTP(srv, c.BatchLimit)
	off := 0
	for ci, call := range c.HTTPCalls {
		var g fate
		steps := 0
		driveHCall(hs, call, nil, func(st hStep) {
			steps++
			lines, _ := splitLines(sink.From(off))
			off = sink.Len()
			if st.Resp.Panic != "" {
				return
			}
			if len(lines) > 1 {
				out.Violate("C39/sample-duplicated-http", "%s produced %d lines", st.Path, len(lines))
				return
			}
			kept := len(lines) == 1 && lines[0].Rec != nil
			status := ""
			if kept {
				status, _ = asString(lines[0].Rec["status"])
			}
			if st.Failed && !kept {
				out.Violate(lib.Keyf("C39", "sample-error-dropped-http", st.Phase), "call #%d %s answered with an error (status %d) but its record was sampled out at rate %v", ci, st.Path, st.Resp.Status, c.Rate)
				return
			}
			if kept && status == "error" {
				return
			}
			if st.Failed {
				return // the hook saw no error although the client did: C37's subject, not a sampling question
			}
			if c.Rate >= 1 {
				if !kept {
					out.Violate("C39/sample-dropped-at-rate-1", "%s dropped at rate %v", st.Path, c.Rate)
				}
				return
			}
			if kept {
				g.kept++
				if got, ok := asFloat(lines[0].Rec["sample_rate"]); !ok || got != c.Rate {
					out.Violate("C39/sample-rate-not-stamped", "%s: kept record carries sample_rate=%v, configured %v", st.Path, lines[0].Rec["sample_rate"], c.Rate)
				}
			} else {
				g.dropped++
			}
		})
		if call.Kind != "unary" {
			if g.kept > 0 && g.dropped > 0 {
				out.Violate("C39/sample-group-split-http", "call #%d %s: of its %d requests, %d non-error records kept and %d dropped (rate %v)", ci, call.Method, steps, g.kept, g.dropped, c.Rate)
			}
			if g.kept+g.dropped > 1 {
				out.Label("sample:real-stream-multi")
			}
		}
	}
}

// ---- async emission ----

type gatedWriter struct {
	mu      sync.Mutex
	lines   [][]byte
	gate    chan struct{} // closed = open
	slow    bool
	entered atomic.Int64 // calls to Write so far, counted before they wait on the gate
}

func (g *gatedWriter) Write(p []byte) (int, error) {
	g.entered.Add(1)
	<-g.gate
	if g.slow {
		time.Sleep(50 * time.Microsecond)
	}
	g.mu.Lock()
	g.lines = append(g.lines, append([]byte{}, p...))
	g.mu.Unlock()
	return len(p), nil
}

func (g *gatedWriter) snapshot() [][]byte {
	g.mu.Lock()
	defer g.mu.Unlock()
	return append([][]byte{}, g.lines...)
}

func (g *gatedWriter) count() int {
	g.mu.Lock()
	defer g.mu.Unlock()
	return len(g.lines)
}

func (g *gatedWriter) has(marker string) bool {
	needle := []byte(`"` + marker + `"`)
	g.mu.Lock()
	defer g.mu.Unlock()
	for i := len(g.lines) - 1; i >= 0; i-- {
		if bytes.Contains(g.lines[i], needle) {
			return true
		}
	}
	return false
}

const (
	stallWindow = 10 * time.Second // no enqueue completes for this long while the writer is gated shut
	hardBound   = 90 * time.Second // anything slower is inconclusive, never a violation
)

func runC39Async(c c39Case, out *lib.Outcome) {
	a := c.Async
	out.Label("async:" + a.Writer)
	gw := &gatedWriter{gate: make(chan struct{}), slow: a.Writer == "slow"}
	gateOpen := false
	openGate := func() {
		if !gateOpen {
			gateOpen = true
			close(gw.gate)
		}
	}
	defer openGate()
	if a.Writer != "blocked" {
		openGate()
	}
	hook := vgirpc.NewAccessLogHook(gw, "")
	// With sampling on the same hook, only the records the sampler keeps are
	// "enqueued". Which ones those are is learnt from a synchronous hook at the
	// same rate (the decision is a function of the id and the rate); errors
	// are always kept, and the sentinels are errors then.
	keptA := map[string]bool{}
	sampling := a.Sample > 0
	if sampling {
		out.Label("async:with-sampling")
		var buf bytes.Buffer
		ref := vgirpc.NewAccessLogHook(&buf, "")
		if err := ref.SetSampleRate(a.Sample); err != nil {
			out.Violate("C39/async-setup", "SetSampleRate(%v): %v", a.Sample, err)
			return
		}
		for g, n := range a.Producers {
			for i := 0; i < n; i++ {
				info := baseInfo(fmt.Sprintf("a_%d_%d", g, i), vgirpc.DispatchMethodUnary)
				info.RequestID = fmt.Sprintf("rq-a-%d-%d", g, i)
				var err error
				if i%3 == 2 {
					err = errors.New("boom")
				}
				feedHook(ref, info, err)
			}
		}
		ls, _ := splitLines(buf.Bytes())
		for _, l := range ls {
			if l.Rec != nil {
				m, _ := asString(l.Rec["method"])
				keptA[m] = true
			}
		}
		if err := hook.SetSampleRate(a.Sample); err != nil {
			out.Violate("C39/async-setup", "SetSampleRate(%v): %v", a.Sample, err)
			return
		}
	}
	if err := hook.SetAsync(a.Queue); err != nil {
		out.Violate("C39/async-setup", "SetAsync(%d): %v", a.Queue, err)
		return
	}
	closed := false
	defer func() {
		if !closed {
			openGate()
			hook.Close()
		}
	}()

	var progress atomic.Int64
	var panics atomic.Int64
	var firstPanic atomic.Value
	feedMany := func(prefix string, g, n int, wg *sync.WaitGroup, start <-chan struct{}) {
		defer wg.Done()
		defer func() {
			if rv := recover(); rv != nil {
				panics.Add(1)
				firstPanic.CompareAndSwap(nil, fmt.Sprint(rv))
			}
		}()
		<-start
		for i := 0; i < n; i++ {
			info := baseInfo(fmt.Sprintf("%s_%d_%d", prefix, g, i), vgirpc.DispatchMethodUnary)
			info.RequestID = fmt.Sprintf("rq-%s-%d-%d", prefix, g, i)
			var err error
			if i%3 == 2 {
				err = errors.New("boom")
			}
			feedHook(hook, info, err)
			progress.Add(1)
		}
	}

	// phase A: everything that is enqueued (returned) before the close
	totalA := 0
	var wgA sync.WaitGroup
	startA := make(chan struct{})
	for g, n := range a.Producers {
		totalA += n
		wgA.Add(1)
		go feedMany("a", g, n, &wgA, startA)
	}
	doneA := make(chan struct{})
	go func() { wgA.Wait(); close(doneA) }()
	close(startA)
	begin := time.Now()
	last, lastChange := int64(-1), time.Now()
waitA:
	for {
		select {
		case <-doneA:
			break waitA
		case <-time.After(20 * time.Millisecond):
		}
		if p := progress.Load(); p != last {
			last, lastChange = p, time.Now()
		}
		if !gateOpen && time.Since(lastChange) > stallWindow {
			// Quiescence: the writer is parked behind the harness's gate, so
			// the queue cannot drain; nothing but enqueue itself can let these
			// goroutines continue, and none has completed a record for 10 s.
			out.Violate("C39/async-enqueue-blocks", "writer blocked, queue %d: %d of %d enqueues returned and none completed for %v — enqueue is waiting on the writer",
				a.Queue, last, totalA, stallWindow)
			openGate()
			select {
			case <-doneA:
			case <-time.After(hardBound):
			}
			return
		}
		if time.Since(begin) > hardBound {
			out.Skipped = true
			out.Label("skipped:slow-machine")
			openGate()
			<-doneA
			return
		}
	}
	if a.Writer == "blocked" {
		out.Label("async:all-returned-while-blocked")
		if totalA > a.Queue+1 {
			out.Label("async:overfull-while-blocked")
		}
	}
	openGate()

	// sentinel: enqueued alone, after the writer was released; once one is
	// through, every earlier drop has been attributed to a written record
	sentinels, sentinelSeen := 0, ""
	for k := 0; k < 400 && sentinelSeen == ""; k++ {
		name := fmt.Sprintf("sentinel_%d", k)
		info := baseInfo(name, vgirpc.DispatchMethodUnary)
		func() {
			defer func() {
				if rv := recover(); rv != nil {
					panics.Add(1)
					firstPanic.CompareAndSwap(nil, fmt.Sprint(rv))
				}
			}()
			var serr error
			if sampling {
				serr = errors.New("sentinel") // an error record is always kept
			}
			feedHook(hook, info, serr)
		}()
		sentinels++
		// Wait until it is written, or until the writer has gone idle (the
		// queue was full and this sentinel was itself dropped: feed another).
		// Misjudging "idle" costs nothing: the accounting stays exact whichever
		// sentinel gets through, because nothing else is enqueuing.
		deadline := time.Now().Add(2 * time.Second)
		count, idleSince := gw.count(), time.Now()
		for time.Now().Before(deadline) {
			if gw.has(name) {
				sentinelSeen = name
				break
			}
			if n := gw.count(); n != count {
				count, idleSince = n, time.Now()
			} else if time.Since(idleSince) > 4*time.Millisecond {
				break
			}
			runtime.Gosched()
			time.Sleep(100 * time.Microsecond)
		}
	}

	// phase B: enqueues racing with Close
	totalB := 0
	var wgB sync.WaitGroup
	startB := make(chan struct{})
	for g, n := range a.Racing {
		totalB += n
		wgB.Add(1)
		go feedMany("b", g, n, &wgB, startB)
	}
	close(startB)
	if len(a.Racing) > 0 {
		runtime.Gosched()
	}
	closeDone := make(chan struct{})
	go func() { hook.Close(); close(closeDone) }()
	select {
	case <-closeDone:
		closed = true
	case <-time.After(hardBound):
		out.Skipped = true
		out.Label("skipped:close-slow")
		return
	}
	doneB := make(chan struct{})
	go func() { wgB.Wait(); close(doneB) }()
	select {
	case <-doneB:
	case <-time.After(hardBound):
		out.Skipped = true
		out.Label("skipped:racing-slow")
		return
	}
	for i := 0; i < a.AfterClose; i++ {
		func() {
			defer func() {
				if rv := recover(); rv != nil {
					panics.Add(1)
					firstPanic.CompareAndSwap(nil, fmt.Sprint(rv))
				}
			}()
			feedHook(hook, baseInfo(fmt.Sprintf("late_%d", i), vgirpc.DispatchMethodUnary), nil)
		}()
	}
	if panics.Load() > 0 {
		out.Violate("C39/async-enqueue-panics", "%d dispatches panicked inside the hook: %v", panics.Load(), firstPanic.Load())
	}

	// ---- accounting over what the writer received ----
	lines := gw.snapshot()
	seen := map[string]int{}
	sentinelIdx := -1
	var droppedUpTo, droppedAfter int64
	drops := make([]int64, len(lines))
	for i, raw := range lines {
		if len(raw) == 0 || raw[len(raw)-1] != '\n' || bytes.Count(raw, []byte("\n")) != 1 {
			out.Violate("C39/async-line-framing", "a write is not exactly one newline-terminated line: %q", lib.Short(string(raw), 200))
			continue
		}
		ls, _ := splitLines(raw)
		if len(ls) != 1 || ls[0].Rec == nil {
			out.Violate("C39/async-line-not-json", "line is not a JSON object: %q", lib.Short(string(raw), 200))
			continue
		}
		m, _ := asString(ls[0].Rec["method"])
		seen[m]++
		if seen[m] == 2 {
			out.Violate("C39/async-written-twice", "record %s was written more than once", m)
		}
		if v, ok := ls[0].Rec["dropped_records"]; ok {
			n, isInt := asInt(v)
			if !isInt || n < 0 {
				out.Violate("C39/async-dropped-field", "dropped_records=%v on %s", v, m)
			}
			drops[i] = n
		}
		if m == sentinelSeen && sentinelSeen != "" {
			sentinelIdx = i
		}
	}
	for i := range lines {
		if i <= sentinelIdx {
			droppedUpTo += drops[i]
		} else {
			droppedAfter += drops[i]
		}
	}
	if sentinelSeen == "" || sentinelIdx < 0 {
		out.Label("async:inexact")
		// without a sentinel only the inequality holds
		var all int64
		for _, d := range drops {
			all += d
		}
		if int64(len(lines))+all > int64(totalA+sentinels+totalB+a.AfterClose) {
			out.Violate("C39/async-accounting-excess", "written %d + dropped_records %d exceeds the %d records fed", len(lines), all, totalA+sentinels+totalB+a.AfterClose)
		}
		return
	}
	// every line up to the sentinel is a phase-A record or a sentinel
	for i := 0; i <= sentinelIdx; i++ {
		ls, _ := splitLines(lines[i])
		if len(ls) == 1 && ls[0].Rec != nil {
			m, _ := asString(ls[0].Rec["method"])
			if !strings.HasPrefix(m, "a_") && !strings.HasPrefix(m, "sentinel_") {
				out.Violate("C39/async-order", "record %s was written before the sentinel although it was enqueued after it", m)
			}
			if drops[i] > 0 && i < sentinelIdx+1 {
				out.NonTrivial = true
			}
		}
	}
	if out.NonTrivial {
		out.Label("async:drop-then-written")
	}
	writtenA := int64(sentinelIdx + 1)
	enqueuedA := int64(totalA + sentinels)
	if sampling {
		enqueuedA = int64(len(keptA) + sentinels)
		for i := 0; i <= sentinelIdx; i++ {
			ls, _ := splitLines(lines[i])
			if len(ls) == 1 && ls[0].Rec != nil {
				if m, _ := asString(ls[0].Rec["method"]); strings.HasPrefix(m, "a_") && !keptA[m] {
					out.Violate("C39/async-sampled-out-record-written", "record %s is dropped by the sampler at rate %v on a synchronous hook but was written by the async one", m, a.Sample)
				}
			}
		}
	}
	switch {
	case writtenA+droppedUpTo < enqueuedA:
		out.Violate("C39/async-accounting-lost", "queue %d, writer %s: %d records enqueued before the sentinel got through, %d written and %d reported in dropped_records — %d lost silently",
			a.Queue, a.Writer, enqueuedA, writtenA, droppedUpTo, enqueuedA-writtenA-droppedUpTo)
	case writtenA+droppedUpTo > enqueuedA:
		out.Violate("C39/async-accounting-excess", "queue %d, writer %s: %d records enqueued before the sentinel got through, but %d written + %d reported in dropped_records",
			a.Queue, a.Writer, enqueuedA, writtenA, droppedUpTo)
	}
	// records racing with the close: written at most once (checked above),
	// and drops reported among them never exceed what was fed
	after := int64(len(lines) - sentinelIdx - 1)
	if after+droppedAfter > int64(totalB+a.AfterClose) {
		out.Violate("C39/async-accounting-excess-racing", "%d records fed during/after the close, but %d written + %d reported dropped", totalB+a.AfterClose, after, droppedAfter)
	}
	if totalB > 0 {
		out.Label("async:racing-close")
	}
}

// runC39Swap: SetAsync called again while the previous emitter's writer is
// parked inside a write. SetAsync itself waits for the old queue to drain
// (it is the closer); the dispatches racing with it must all return while
// the writer is still parked: those that picked up the old emitter find it
// open or closed, those that picked up the new one find a queue with room or
// a full one, and neither answer involves the writer.
func runC39Swap(c c39Case, out *lib.Outcome) {
	sw := c.Async.Swap
	if sw == nil {
		return
	}
	out.Label("async:swap-under-stall")
	gw := &gatedWriter{gate: make(chan struct{})}
	gateOpen := false
	openGate := func() {
		if !gateOpen {
			gateOpen = true
			close(gw.gate)
		}
	}
	defer openGate()
	hook := vgirpc.NewAccessLogHook(gw, "")
	if err := hook.SetAsync(sw.Queue1); err != nil {
		out.Violate("C39/async-setup", "SetAsync(%d): %v", sw.Queue1, err)
		return
	}
	swapDone := make(chan struct{})
	swapStarted := false
	defer func() {
		openGate()
		if swapStarted {
			select {
			case <-swapDone:
			case <-time.After(hardBound):
				return
			}
		}
		hook.Close()
	}()
	fed := 1
	feedHook(hook, baseInfo("park", vgirpc.DispatchMethodUnary), nil)
	for begin := time.Now(); gw.entered.Load() == 0; {
		if time.Since(begin) > 20*time.Second {
			out.Label("skipped:swap-writer-never-started")
			return
		}
		time.Sleep(50 * time.Microsecond)
	}
	for i := 0; i < sw.Prefill; i++ {
		feedHook(hook, baseInfo(fmt.Sprintf("pre_%d", i), vgirpc.DispatchMethodUnary), nil)
		fed++
	}
	var progress, panics atomic.Int64
	var firstPanic atomic.Value
	var wg sync.WaitGroup
	start := make(chan struct{})
	total := 0
	for g, n := range sw.Racers {
		total += n
		wg.Add(1)
		go func(g, n int) {
			defer wg.Done()
			defer func() {
				if rv := recover(); rv != nil {
					panics.Add(1)
					firstPanic.CompareAndSwap(nil, fmt.Sprint(rv))
				}
			}()
			<-start
			for i := 0; i < n; i++ {
				feedHook(hook, baseInfo(fmt.Sprintf("sw_%d_%d", g, i), vgirpc.DispatchMethodUnary), nil)
				progress.Add(1)
			}
		}(g, n)
	}
	fed += total
	var swapErr error
	swapStarted = true
	go func() {
		defer close(swapDone)
		<-start
		for i := 0; i < sw.Yield; i++ {
			runtime.Gosched()
		}
		swapErr = hook.SetAsync(sw.Queue2)
	}()
	done := make(chan struct{})
	go func() { wg.Wait(); close(done) }()
	close(start)
	begin := time.Now()
	last, lastChange := int64(-1), time.Now()
wait:
	for {
		select {
		case <-done:
			break wait
		case <-time.After(20 * time.Millisecond):
		}
		if p := progress.Load(); p != last {
			last, lastChange = p, time.Now()
		}
		if time.Since(lastChange) > stallWindow {
			out.Violate("C39/async-enqueue-blocks-during-close", "writer parked in a write, SetAsync(%d) replacing a queue of %d: %d of %d racing dispatches returned and none completed for %v — enqueue is waiting for the old emitter to drain",
				sw.Queue2, sw.Queue1, last, total, stallWindow)
			openGate()
			select {
			case <-done:
			case <-time.After(hardBound):
			}
			return
		}
		if time.Since(begin) > hardBound {
			out.Skipped = true
			out.Label("skipped:slow-machine")
			return
		}
	}
	out.Label("async:swap-all-returned-while-parked")
	openGate()
	select {
	case <-swapDone:
	case <-time.After(hardBound):
		out.Skipped = true
		out.Label("skipped:swap-slow")
		return
	}
	if swapErr != nil {
		out.Violate("C39/async-setup", "second SetAsync(%d): %v", sw.Queue2, swapErr)
	}
	hook.Close()
	swapStarted = false
	if panics.Load() > 0 {
		out.Violate("C39/async-enqueue-panics", "%d dispatches panicked inside the hook during the swap: %v", panics.Load(), firstPanic.Load())
	}
	// what reached the writer: one line each, nothing twice, and never more
	// (written + reported dropped) than was fed
	seen := map[string]bool{}
	var dropped int64
	lines := gw.snapshot()
	for _, raw := range lines {
		ls, _ := splitLines(raw)
		if len(raw) == 0 || raw[len(raw)-1] != '\n' || bytes.Count(raw, []byte("\n")) != 1 || len(ls) != 1 || ls[0].Rec == nil {
			out.Violate("C39/async-line-framing", "a write during the swap is not exactly one JSON line: %q", lib.Short(string(raw), 200))
			continue
		}
		m, _ := asString(ls[0].Rec["method"])
		if seen[m] {
			out.Violate("C39/async-written-twice", "record %s was written more than once across the swap", m)
		}
		seen[m] = true
		if v, ok := ls[0].Rec["dropped_records"]; ok {
			if n, isInt := asInt(v); isInt && n >= 0 {
				dropped += n
			} else {
				out.Violate("C39/async-dropped-field", "dropped_records=%v on %s", v, m)
			}
		}
	}
	if !seen["park"] {
		out.Violate("C39/async-accounting-lost", "the record the writer was parked on when SetAsync replaced the emitter was never written")
	}
	if int64(len(lines))+dropped > int64(fed) {
		out.Violate("C39/async-accounting-excess", "across the swap: written %d + dropped_records %d exceeds the %d records fed", len(lines), dropped, fed)
	}
}

// runC39CloseDrain: Close is called while records whose enqueue has already
// returned are still in the queue (the writer is parked on the first one).
// The queue never fills, so nothing may be dropped: when Close returns, every
// one of them has been written, once.
func runC39CloseDrain(c c39Case, out *lib.Outcome) {
	q := c.Async.Queue
	k := q
	if k > 12 {
		k = 12
	}
	if k < 1 {
		return
	}
	gw := &gatedWriter{gate: make(chan struct{})}
	hook := vgirpc.NewAccessLogHook(gw, "")
	if err := hook.SetAsync(q); err != nil {
		return
	}
	opened := false
	open := func() {
		if !opened {
			opened = true
			close(gw.gate)
		}
	}
	defer open()
	for i := 0; i < k; i++ {
		feedHook(hook, baseInfo(fmt.Sprintf("queued_%d", i), vgirpc.DispatchMethodUnary), nil)
		if i == 0 {
			// let the writer take the first record, so the rest fit the queue
			for begin := time.Now(); gw.entered.Load() == 0 && time.Since(begin) < 20*time.Second; {
				time.Sleep(50 * time.Microsecond)
			}
		}
	}
	closed := make(chan struct{})
	go func() { hook.Close(); close(closed) }()
	time.Sleep(2 * time.Millisecond)
	select {
	case <-closed:
		// Close returned although the writer is still parked on the first record
		out.Violate("C39/close-returned-before-drain", "Close returned while the writer was still parked on the first of %d queued records (queue %d)", k, q)
		open()
		return
	default:
	}
	open()
	select {
	case <-closed:
	case <-time.After(hardBound):
		out.Skipped = true
		out.Label("skipped:close-slow")
		return
	}
	out.Label("async:close-with-backlog")
	seen := map[string]int{}
	for _, raw := range gw.snapshot() {
		if ls, _ := splitLines(raw); len(ls) == 1 && ls[0].Rec != nil {
			m, _ := asString(ls[0].Rec["method"])
			seen[m]++
		}
	}
	for i := 0; i < k; i++ {
		name := fmt.Sprintf("queued_%d", i)
		switch seen[name] {
		case 1:
		case 0:
			out.Violate("C39/async-accounting-lost", "record %s was enqueued (queue %d never full) before Close and is not in the log after Close returned; %d of %d written", name, q, len(seen), k)
			return
		default:
			out.Violate("C39/async-written-twice", "record %s was written %d times", name, seen[name])
			return
		}
	}
}

func runC39(c c39Case) (out lib.Outcome) {
	lib.ResetEvents()
	runC39Sampling(c, &out)
	runC39Real(c, &out)
	runC39Async(c, &out)
	runC39Swap(c, &out)
	runC39CloseDrain(c, &out)
	return
}

var propC39 = lib.Prop[c39Case]{
	ID: "C39",
	Rule: "per case (a) 1-40 records fed through a sampling AccessLogHook (rates 0, 1e-9, 0.25, 0.5, 0.75, 1-1e-9, 1, random), stream records drawn from 1-6 shared stream ids with varying request ids, unary records from a pool of 6 request ids or none, a quarter of them errors; " +
		"(b) in a quarter of the cases 1-3 real HTTP calls (unary, producer with a batch limit followed to the end, exchange of 1-3 turns) through a sampled hook; " +
		"(c) an async hook (queue 1-64) over a writer gated by the harness (blocked until every enqueuer returned / 50 µs per record / fast), 1-8 goroutines released together enqueueing 0-40 records each, then sentinel records fed alone until one is written, (in two cases of five the same hook also samples at 0.3/0.5/0.7: the records a synchronous hook keeps at that rate are the ones accounted for) then 0-4 goroutines enqueueing concurrently with Close, then 0-3 dispatches after Close; in a third of the cases also a second hook whose writer is parked inside a write while SetAsync replaces its emitter (queues 1-64) and 1-8 goroutines dispatch 1-60 records each concurrently: all must return while the writer stays parked. " +
		"Oracle: error records always written; non-error records sharing a stream id (else a request id) all written or all absent; written non-error records carry sample_rate = rate; with the writer gated shut every enqueuer returns (violation only if no enqueue completes for 10 s while the gate is shut); " +
		"lines up to the sentinel: count + sum(dropped_records) = records enqueued before it (exact), each record written at most once, one JSON line per write; after it only the inequality. " +
		"Non-trivial: a written record carrying dropped_records > 0 (a drop followed by a later written record).",
	Gen:          genC39,
	Run:          runC39,
	Essential:    []string{"async:blocked", "async:slow", "async:fast", "async:drop-then-written", "async:overfull-while-blocked", "async:racing-close", "async:close-with-backlog", "async:with-sampling", "async:swap-all-returned-while-parked", "sample:group-kept", "sample:group-dropped", "sample:error-kept", "sample:real-stream-multi", "rate:0", "rate:tiny", "rate:mid", "rate:1"},
	EssentialMin: 300,
	Assumptions: []string{
		"'enqueued before close' means the dispatch returned before Close was called; records fed concurrently with or after Close are only required not to be written twice",
		"schedules are random plus barrier-forced (goroutines released together, writer gated); a bug needing one specific interleaving may be missed",
	},
}

func TestC39(t *testing.T) { lib.Check(t, propC39) }
