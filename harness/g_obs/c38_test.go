package g_obs

import (
	"bytes"
	"context"
	"encoding/base64"
	"fmt"
	"net/http"
	"os"
	"sort"
	"strings"
	"testing"
	"time"

	"github.com/Query-farm/vgi-rpc-go/vgirpc"
	"github.com/apache/arrow-go/v18/arrow"
	"pgregory.net/rapid"

	"verifharness/lib"
)

// C38 — access-log records are schema-valid and describe the call.
//
// The Python schema file (vgi_rpc/access_log.schema.json) is not in the
// sandbox. The field contract below is pinned from /repo/CLAUDE.md ("Cross-
// language wire alignment"), the doc comments of accesslog*.go / hooks.go and
// the record assembled in AccessLogHook.OnDispatchEnd.

type c38Trace struct {
	Kind    string `json:"kind"` // none | valid | dashed | upper | trace_only | span_only | short | long | panic
	TraceID string `json:"trace_id,omitempty"`
	SpanID  string `json:"span_id,omitempty"`
}

type c38Claim struct {
	Key   string `json:"key"`
	Class string `json:"class"` // sensitive | benign | ambiguous
	Value any    `json:"value"`
}

type c38Case struct {
	Transport  string         `json:"transport"` // pipe | http
	Debug      bool           `json:"debug"`
	Version    string         `json:"server_version,omitempty"`
	Trace      c38Trace       `json:"trace"`
	Redactor   string         `json:"redactor"` // default | none | custom | custom_empty | panic
	Claims     []c38Claim     `json:"claims,omitempty"`
	PipeCalls  []lib.CallSpec `json:"pipe_calls,omitempty"`
	HTTPCalls  []hCall        `json:"http_calls,omitempty"`
	BatchLimit int            `json:"batch_limit,omitempty"`
	// ColdConts serves every continuation from a second HttpServer instance
	// (same server, hook and token key) whose call-state cache never saw the
	// /init: the documented load-balanced deployment.
	ColdConts bool `json:"cold_conts,omitempty"`
	// Overlap replaces the history by a harness-scheduled set of overlapping HTTP calls.
	Overlap *c38Overlap `json:"overlap,omitempty"`
}

// ---- reference: which claim names are sensitive (from the RedactClaims doc
// comment and CLAUDE.md: credential-shaped names plus standard OIDC PII) ----

var sensitiveClaimKeys = []string{
	"password", "api_key", "refresh_token", "client_secret", "Authorization", "access_token",
	"email", "phone_number", "address", "birthdate", "gender", "name", "given_name", "family_name",
	"middle_name", "nickname", "preferred_username", "picture", "profile", "website", "EMAIL", "Secret",
}
var benignClaimKeys = []string{"sub", "scope", "tenant", "iss", "aud", "roles", "custom_context", "org", "exp", "amr"}

// names the documentation does not decide (substring matches of the listed words)
var ambiguousClaimKeys = []string{"email_verified", "keyboard", "username", "tokens_used", "phone_number_verified", "zoneinfo"}

var sensitiveWords = []string{"password", "token", "secret", "key", "authorization", "email", "phone", "address",
	"birthdate", "gender", "name", "picture", "profile", "website"}

// looksSensitive is deliberately generous (any listed word as a substring): it
// is only used to relax the comparison of nested values, where the
// documentation does not say whether redaction recurses.
func looksSensitive(k string) bool {
	lk := strings.ToLower(k)
	for _, w := range sensitiveWords {
		if strings.Contains(lk, w) {
			return true
		}
	}
	return false
}

const redactedMarker = "[redacted]"

// relaxNested replaces, inside nested maps, every value stored under a
// sensitive-looking name by the marker, on both sides of a comparison.
func relaxNested(v any) any {
	switch x := v.(type) {
	case map[string]any:
		out := map[string]any{}
		for k, e := range x {
			if looksSensitive(k) {
				out[k] = redactedMarker
			} else {
				out[k] = relaxNested(e)
			}
		}
		return out
	case []any:
		out := make([]any, len(x))
		for i, e := range x {
			out[i] = relaxNested(e)
		}
		return out
	}
	return v
}

func genClaimValue(t *rapid.T, depth int) any {
	switch rapid.IntRange(0, 6).Draw(t, "cvk") {
	case 0:
		return float64(rapid.IntRange(-5, 100000).Draw(t, "cvn"))
	case 1:
		return rapid.Bool().Draw(t, "cvb")
	case 2:
		if depth < 2 {
			m := map[string]any{}
			n := rapid.IntRange(0, 3).Draw(t, "cvmn")
			for i := 0; i < n; i++ {
				pool := append(append([]string{}, sensitiveClaimKeys[:6]...), benignClaimKeys[:5]...)
				m[pool[rapid.IntRange(0, len(pool)-1).Draw(t, "cvmk")]] = genClaimValue(t, depth+1)
			}
			return m
		}
	case 3:
		if depth < 2 {
			n := rapid.IntRange(0, 3).Draw(t, "cvln")
			l := make([]any, n)
			for i := range l {
				l[i] = genClaimValue(t, depth+1)
			}
			return l
		}
	case 4:
		return "alice@example.com"
	}
	return "v:" + rapid.StringMatching(`[a-zA-Z0-9 .@+-]{0,16}`).Draw(t, "cvs")
}

func genClaims(t *rapid.T) []c38Claim {
	n := rapid.IntRange(0, 6).Draw(t, "nclaims")
	seen := map[string]bool{}
	var out []c38Claim
	for i := 0; i < n; i++ {
		var key, class string
		switch k := rapid.IntRange(0, 9).Draw(t, "cclass"); {
		case k < 5:
			key, class = sensitiveClaimKeys[rapid.IntRange(0, len(sensitiveClaimKeys)-1).Draw(t, "ck")], "sensitive"
		case k < 9:
			key, class = benignClaimKeys[rapid.IntRange(0, len(benignClaimKeys)-1).Draw(t, "ck")], "benign"
		default:
			key, class = ambiguousClaimKeys[rapid.IntRange(0, len(ambiguousClaimKeys)-1).Draw(t, "ck")], "ambiguous"
		}
		if seen[key] {
			continue
		}
		seen[key] = true
		out = append(out, c38Claim{Key: key, Class: class, Value: genClaimValue(t, 0)})
	}
	return out
}

func genC38(t *rapid.T) c38Case {
	c := c38Case{Transport: "http", Redactor: "default"}
	if rapid.IntRange(0, 2).Draw(t, "transport") == 0 {
		c.Transport = "pipe"
	}
	c.Debug = rapid.Bool().Draw(t, "debug")
	if rapid.Bool().Draw(t, "version") {
		c.Version = "1.2.3"
	}
	if rapid.IntRange(0, 7).Draw(t, "overlap?") == 0 {
		c.Transport = "http"
		c.Overlap = genC38Overlap(t)
		return c
	}
	kinds := []string{"none", "valid", "valid", "dashed", "upper", "trace_only", "span_only", "short", "long", "panic"}
	c.Trace.Kind = kinds[rapid.IntRange(0, len(kinds)-1).Draw(t, "tracekind")]
	c.Trace.TraceID = genHex(t, 32, "tid")
	c.Trace.SpanID = genHex(t, 16, "sid")
	switch c.Trace.Kind {
	case "dashed":
		x := c.Trace.TraceID
		c.Trace.TraceID = x[:8] + "-" + x[8:12] + "-" + x[12:16] + "-" + x[16:20] + "-" + x[20:]
	case "upper":
		c.Trace.TraceID = strings.ToUpper(c.Trace.TraceID[:31]) + "A"
	case "trace_only":
		c.Trace.SpanID = ""
	case "span_only":
		c.Trace.TraceID = ""
	case "short":
		c.Trace.SpanID = c.Trace.SpanID[:rapid.IntRange(1, 15).Draw(t, "shortn")]
	case "long":
		c.Trace.TraceID += "0"
	}
	if c.Transport == "pipe" {
		maxCalls := 8
		if os.Getenv("VERIF_TIER") == "thorough" {
			maxCalls = 14
		}
		n := rapid.IntRange(1, maxCalls).Draw(t, "ncalls")
		for i := 0; i < n; i++ {
			call := lib.GenCall(t, lib.CallID(i))
			call.Opts.RequestID = fmt.Sprintf("rid-%d", i)
			c.PipeCalls = append(c.PipeCalls, call)
		}
		return c
	}
	c.Redactor = []string{"default", "default", "default", "none", "custom", "custom_empty", "panic"}[rapid.IntRange(0, 6).Draw(t, "redactor")]
	c.Claims = genClaims(t)
	c.BatchLimit = rapid.IntRange(1, 3).Draw(t, "limit")
	c.ColdConts = rapid.IntRange(0, 2).Draw(t, "cold") == 0
	maxCalls := 5
	if os.Getenv("VERIF_TIER") == "thorough" {
		maxCalls = 9
	}
	n := rapid.IntRange(1, maxCalls).Draw(t, "ncalls")
	for i := 0; i < n; i++ {
		c.HTTPCalls = append(c.HTTPCalls, genHCall(t, i))
	}
	return c
}

func customRedactor(claims map[string]any) map[string]any {
	out := map[string]any{}
	for k := range claims {
		if strings.HasPrefix(k, "e") || strings.HasPrefix(k, "s") {
			continue // a custom policy may drop keys
		}
		out[k] = "custom:" + k
	}
	return out
}

func (c c38Case) claimsMap() map[string]any {
	if len(c.Claims) == 0 {
		return nil
	}
	m := map[string]any{}
	for _, cl := range c.Claims {
		m[cl.Key] = cl.Value
	}
	return m
}

// ---- the pinned field contract ----

type fieldKind int

const (
	fString fieldKind = iota
	fBool
	fNumber
	fInt
)

var requiredFields = []struct {
	name string
	kind fieldKind
}{
	{"timestamp", fString}, {"level", fString}, {"logger", fString}, {"message", fString},
	{"server_id", fString}, {"protocol", fString}, {"protocol_hash", fString}, {"method", fString},
	{"method_type", fString}, {"principal", fString}, {"auth_domain", fString}, {"authenticated", fBool},
	{"remote_addr", fString}, {"duration_ms", fNumber}, {"status", fString}, {"error_type", fString},
}

var optionalFields = map[string]fieldKind{
	"error_message": fString, "server_version": fString, "request_id": fString, "trace_id": fString,
	"span_id": fString, "http_status": fInt, "request_data": fString, "original_request_bytes": fInt,
	"stream_id": fString, "cancelled": fBool, "request_bytes": fInt, "response_bytes": fInt,
	"externalized_bytes": fInt, "input_batches": fInt, "output_batches": fInt, "input_rows": fInt,
	"output_rows": fInt, "input_bytes": fInt, "output_bytes": fInt, "sample_rate": fNumber, "dropped_records": fInt,
}

func kindOK(v any, k fieldKind) bool {
	switch k {
	case fString:
		_, ok := v.(string)
		return ok
	case fBool:
		_, ok := v.(bool)
		return ok
	case fNumber:
		_, ok := asFloat(v)
		return ok
	case fInt:
		i, ok := asInt(v)
		return ok && i >= 0
	}
	return false
}

// checkShape judges one record against the pinned contract.
func checkShape(out *lib.Outcome, rec map[string]any, c c38Case) {
	for _, f := range requiredFields {
		v, ok := rec[f.name]
		if !ok {
			out.Violate(lib.Keyf("C38", "required-field-missing", f.name), "record lacks required field %q: %s", f.name, lib.Short(canonJSON(rec), 400))
			continue
		}
		if !kindOK(v, f.kind) {
			out.Violate(lib.Keyf("C38", "field-type", f.name), "field %q has value %v (%T)", f.name, v, v)
		}
	}
	names := make([]string, 0, len(rec))
	for k := range rec {
		names = append(names, k)
	}
	sort.Strings(names)
	for _, k := range names {
		if kind, ok := optionalFields[k]; ok && !kindOK(rec[k], kind) {
			out.Violate(lib.Keyf("C38", "field-type", k), "optional field %q has value %v (%T)", k, rec[k], rec[k])
		}
	}
	if s, ok := asString(rec["timestamp"]); ok {
		if _, err := time.Parse(time.RFC3339Nano, s); err != nil {
			out.Violate("C38/field-type-timestamp", "timestamp %q is not an RFC 3339 instant: %v", s, err)
		}
	}
	if s, ok := asString(rec["method_type"]); ok && s != "unary" && s != "stream" {
		out.Violate("C38/field-type-method_type", "method_type %q is neither unary nor stream", s)
	}
	status, _ := asString(rec["status"])
	if status != "" && status != "ok" && status != "error" {
		out.Violate("C38/field-type-status", "status %q is neither ok nor error", status)
	}
	if s, ok := asString(rec["protocol_hash"]); ok && !isLowerHexN(s, 64) {
		out.Violate("C38/field-type-protocol_hash", "protocol_hash %q is not a SHA-256 hex digest", s)
	}
	if d, ok := asFloat(rec["duration_ms"]); ok && d < 0 {
		out.Violate("C38/field-type-duration_ms", "duration_ms %v is negative", d)
	}
	if c.Version != "" {
		if s, _ := asString(rec["server_version"]); s != c.Version {
			out.Violate("C38/server-version", "server_version %q, hook was built with %q", s, c.Version)
		}
	}
	if v, ok := rec["truncated"]; ok && v != "payload_omitted" && v != true {
		out.Violate("C38/field-type-truncated", "truncated has value %v (%T)", v, v)
	}
	if v, ok := rec["claims"]; ok {
		if _, isMap := v.(map[string]any); !isMap {
			out.Violate("C38/field-type-claims", "claims has value %v (%T)", v, v)
		}
	}
	// stream id: 32 lowercase hex on every stream record
	if mt, _ := asString(rec["method_type"]); mt == "stream" {
		s, ok := asString(rec["stream_id"])
		if !ok || !isLowerHexN(s, 32) {
			out.Violate("C38/stream-id-malformed", "stream record has stream_id %v", rec["stream_id"])
		}
	}
	// trace correlation: both well-formed or both absent
	tid, hasT := rec["trace_id"]
	sid, hasS := rec["span_id"]
	if hasT != hasS {
		out.Violate(lib.Keyf("C38", "trace-pair-half", c.Trace.Kind), "record carries trace_id=%v span_id=%v", tid, sid)
	} else if hasT {
		ts, _ := asString(tid)
		ss, _ := asString(sid)
		if !isLowerHexN(ts, 32) || !isLowerHexN(ss, 16) {
			out.Violate(lib.Keyf("C38", "trace-pair-malformed", c.Trace.Kind), "record carries trace_id=%q span_id=%q", ts, ss)
		}
	}
	switch c.Trace.Kind {
	case "valid":
		if ts, _ := asString(tid); ts != c.Trace.TraceID {
			out.Violate("C38/trace-pair-lost", "provider returned (%s,%s), record has trace_id=%v span_id=%v", c.Trace.TraceID, c.Trace.SpanID, tid, sid)
		} else if ss, _ := asString(sid); ss != c.Trace.SpanID {
			out.Violate("C38/trace-pair-lost", "provider returned (%s,%s), record has trace_id=%v span_id=%v", c.Trace.TraceID, c.Trace.SpanID, tid, sid)
		}
	default:
		// CLAUDE.md: malformed values are dropped rather than emitted; none/panic yield nothing
		if hasT || hasS {
			out.Violate(lib.Keyf("C38", "trace-pair-invented", c.Trace.Kind), "provider kind %s (%q,%q) but record has trace_id=%v span_id=%v", c.Trace.Kind, c.Trace.TraceID, c.Trace.SpanID, tid, sid)
		}
	}
}

// checkPayload: on unary and stream-init records, request_data (decoding to the
// request batch) xor the payload-omitted marker with original_request_bytes.
func checkPayload(out *lib.Outcome, rec map[string]any, sent arrow.RecordBatch, c c38Case, where string) {
	data, hasData := rec["request_data"]
	_, hasMarker := rec["truncated"]
	switch {
	case hasData && hasMarker:
		out.Violate(lib.Keyf("C38", "payload-both", where), "record carries request_data and truncated=%v", rec["truncated"])
	case !hasData && !hasMarker:
		out.Violate(lib.Keyf("C38", "payload-neither", where), "%s record carries neither request_data nor the payload-omitted marker: %s", where, lib.Short(canonJSON(rec), 500))
	case hasMarker:
		if rec["truncated"] != "payload_omitted" {
			// CLAUDE.md: this port enforces no per-record byte cap, so it never emits true
			out.Violate(lib.Keyf("C38", "payload-marker", where), "truncated=%v, expected \"payload_omitted\"", rec["truncated"])
		}
		if n, ok := asInt(rec["original_request_bytes"]); !ok || n <= 0 {
			out.Violate(lib.Keyf("C38", "payload-marker-size", where), "payload omitted but original_request_bytes=%v", rec["original_request_bytes"])
		}
		if c.Debug {
			out.Violate(lib.Keyf("C38", "payload-omitted-in-debug", where), "debug is on but the record omits the payload")
		}
	case hasData:
		if !c.Debug {
			out.Violate(lib.Keyf("C38", "payload-present-at-info", where), "debug is off but the record carries request_data")
		}
		s, _ := asString(data)
		raw, err := base64.StdEncoding.DecodeString(s)
		if err != nil {
			out.Violate(lib.Keyf("C38", "payload-not-base64", where), "request_data is not standard base64: %v", err)
			return
		}
		got, err := lib.DecodeOne(raw)
		if err != nil {
			out.Violate(lib.Keyf("C38", "payload-not-ipc", where), "request_data does not decode to one IPC stream with one batch: %v", err)
			return
		}
		if sent != nil {
			if d := lib.BatchDiff(sent, got.Rec); d != "" {
				out.Violate(lib.Keyf("C38", "payload-differs", where), "request_data decodes to a batch different from the request batch: %s", d)
			}
		}
	}
}

// checkClaims judges the claims field of an authenticated HTTP record.
func checkClaims(out *lib.Outcome, rec map[string]any, c c38Case) {
	got, has := rec["claims"].(map[string]any)
	raw := c.claimsMap()
	// the record went through JSON once; do the same to the expectation
	switch c.Redactor {
	case "panic":
		if _, present := rec["claims"]; present {
			out.Violate("C38/claims-redactor-panic-fails-open", "the redactor panicked but the record carries claims %s", lib.Short(canonJSON(rec["claims"]), 300))
		}
		return
	case "none":
		if len(raw) == 0 {
			return
		}
		if !has || canonJSON(got) != canonJSON(raw) {
			out.Violate("C38/claims-none-altered", "NoClaimRedaction installed: expected %s, record has %s", lib.Short(canonJSON(raw), 300), lib.Short(canonJSON(rec["claims"]), 300))
		}
		return
	case "custom", "custom_empty":
		if len(raw) == 0 {
			return
		}
		want := map[string]any{}
		if c.Redactor == "custom" {
			want = customRedactor(raw)
		}
		if len(want) == 0 {
			if has && len(got) > 0 {
				out.Violate("C38/claims-custom-ignored", "custom redactor returned nothing, record has %s", lib.Short(canonJSON(got), 300))
			}
			return
		}
		if !has || canonJSON(got) != canonJSON(want) {
			out.Violate("C38/claims-custom-ignored", "custom redactor returned %s, record has %s", lib.Short(canonJSON(want), 300), lib.Short(canonJSON(rec["claims"]), 300))
		}
		return
	}
	// default policy: key-based, values replaced, keys kept
	if len(raw) == 0 {
		return
	}
	if !has {
		out.Violate("C38/claims-missing", "authenticated caller with %d claims, record has no claims object", len(raw))
		return
	}
	for _, cl := range c.Claims {
		v, present := got[cl.Key]
		switch cl.Class {
		case "sensitive":
			if !present {
				// "replaces values rather than dropping keys" — but never a leak; report separately
				out.Violate("C38/claims-sensitive-key-dropped", "claim %q is missing from the record (values are replaced, keys kept)", cl.Key)
			} else if v != redactedMarker {
				out.Violate("C38/claims-sensitive-leaked", "claim %q reached the log as %s", cl.Key, lib.Short(canonJSON(v), 200))
			}
		case "benign":
			if !present {
				out.Violate("C38/claims-benign-dropped", "benign claim %q is missing from the record", cl.Key)
			} else if canonJSON(relaxNested(v)) != canonJSON(relaxNested(cl.Value)) {
				out.Violate("C38/claims-benign-altered", "benign claim %q: sent %s, logged %s", cl.Key, lib.Short(canonJSON(cl.Value), 200), lib.Short(canonJSON(v), 200))
			}
		default: // ambiguous: either verbatim or the marker
			if present && v != redactedMarker && canonJSON(relaxNested(v)) != canonJSON(relaxNested(cl.Value)) {
				out.Violate("C38/claims-altered", "claim %q: sent %s, logged %s", cl.Key, lib.Short(canonJSON(cl.Value), 200), lib.Short(canonJSON(v), 200))
			}
		}
	}
	if len(got) > len(c.Claims) {
		out.Violate("C38/claims-invented", "record has %d claims, caller had %d", len(got), len(c.Claims))
	}
}

func installTraceProvider(tr c38Trace) {
	switch tr.Kind {
	case "none":
		vgirpc.SetTraceContextProvider(nil)
	case "panic":
		vgirpc.SetTraceContextProvider(func(context.Context) (string, string) { panic("provider is broken") })
	default:
		tid, sid := tr.TraceID, tr.SpanID
		vgirpc.SetTraceContextProvider(func(context.Context) (string, string) { return tid, sid })
	}
}

func installRedactor(kind string) {
	switch kind {
	case "none":
		vgirpc.SetClaimRedactor(vgirpc.NoClaimRedaction)
	case "custom":
		vgirpc.SetClaimRedactor(customRedactor)
	case "custom_empty":
		vgirpc.SetClaimRedactor(func(map[string]any) map[string]any { return nil })
	case "panic":
		vgirpc.SetClaimRedactor(func(map[string]any) map[string]any { panic("redactor is broken") })
	default:
		vgirpc.SetClaimRedactor(nil)
	}
}

// dispatchedOnPipe: the pipe calls the documentation says reach a handler
// dispatch (a registered method, well-formed routing metadata).
func dispatchedOnPipe(c lib.CallSpec) bool { return c.Kind == "unary" || c.Kind == "stream" }

func runC38(c c38Case) (out lib.Outcome) {
	lib.ResetEvents()
	if c.Overlap != nil {
		return runC38Overlap(c)
	}
	installTraceProvider(c.Trace)
	installRedactor(c.Redactor)
	defer vgirpc.SetTraceContextProvider(nil)
	defer vgirpc.SetClaimRedactor(nil)

	sink := &lockedBuf{}
	hook := vgirpc.NewAccessLogHook(sink, c.Version)
	hook.SetDebug(c.Debug)
	srv := newObsServer()
	srv.SetDispatchHook(hook)

	out.Label("transport:"+c.Transport, fmt.Sprintf("debug:%v", c.Debug), "trace:"+c.Trace.Kind, "redactor:"+c.Redactor)

	parse := func(data []byte) []map[string]any {
		lines, unterminated := splitLines(data)
		if unterminated {
			out.Violate("C38/line-unterminated", "log output does not end in a newline: %q", lib.Short(string(data), 200))
		}
		var recs []map[string]any
		for _, l := range lines {
			if l.Rec == nil {
				out.Violate("C38/line-not-json-object", "log line is not one JSON object (%s): %q", l.Err, lib.Short(l.Raw, 300))
				continue
			}
			checkShape(&out, l.Rec, c)
			recs = append(recs, l.Rec)
		}
		return recs
	}

	if c.Transport == "pipe" {
		var input bytes.Buffer
		for _, call := range c.PipeCalls {
			req, in := call.PipeBytes()
			input.Write(req)
			input.Write(in)
			out.Label("call:" + call.Kind)
		}
		res := lib.RunPipe(srv, input.Bytes())
		if res.Panic != "" {
			out.Skipped = true // a crash of the serve loop is C03's subject
			out.Label("skipped:serve-panic")
			return
		}
		recs := parse(sink.From(0))
		byRID := map[string][]map[string]any{}
		for _, r := range recs {
			rid, _ := asString(r["request_id"])
			byRID[rid] = append(byRID[rid], r)
		}
		for i, call := range c.PipeCalls {
			rid := fmt.Sprintf("rid-%d", i)
			mine := byRID[rid]
			if !dispatchedOnPipe(call) {
				continue
			}
			if len(mine) != 1 {
				// AccessLogHook doc: "emits one JSON record per RPC call"
				out.Violate(lib.Keyf("C38", "record-count-pipe", call.Kind), "call #%d (%s %s) produced %d records", i, call.Kind, call.Method, len(mine))
				continue
			}
			r := mine[0]
			if m, _ := asString(r["method"]); m != call.Method {
				out.Violate("C38/record-names-other-method", "call #%d to %s logged as method %q", i, call.Method, m)
			}
			wantType := "unary"
			if call.Kind == "stream" {
				wantType = "stream"
			}
			if mt, _ := asString(r["method_type"]); mt != wantType {
				out.Violate("C38/record-names-other-type", "call #%d (%s) logged as method_type %q", i, call.Kind, mt)
			}
			req, _ := call.PipeBytes()
			var sent arrow.RecordBatch
			if b, err := lib.DecodeOne(req); err == nil {
				sent = b.Rec
			}
			checkPayload(&out, r, sent, c, "pipe-"+call.Kind)
			if call.BadParams != "" {
				out.Label("badparams")
			}
		}
		return
	}

	// ---- HTTP ----
	hs, hs2 := newObsHTTP(srv, c.BatchLimit), newObsHTTP(srv, c.BatchLimit)
	claims := c.claimsMap()
	authn := func(*http.Request) (*vgirpc.AuthContext, error) {
		cp := map[string]any{}
		for k, v := range claims {
			cp[k] = v
		}
		return &vgirpc.AuthContext{Domain: "harness", Authenticated: true, Principal: "alice", Claims: cp}, nil
	}
	hs.SetAuthenticate(authn)
	hs2.SetAuthenticate(authn)
	var front http.Handler = hs
	if c.ColdConts {
		out.Label("cold-continuations")
		front = http.HandlerFunc(func(w http.ResponseWriter, r *http.Request) {
			if strings.HasSuffix(r.URL.Path, "/exchange") {
				hs2.ServeHTTP(w, r)
				return
			}
			hs.ServeHTTP(w, r)
		})
	}
	for _, cl := range c.Claims {
		out.Label("claims:" + cl.Class)
		if _, nested := cl.Value.(map[string]any); nested {
			out.Label("claims:nested")
		}
	}
	off := 0
	for ci, call := range c.HTTPCalls {
		out.Label("call:" + call.Kind)
		streamID := ""
		conts := 0
		driveHCall(front, call, nil, func(st hStep) {
			// records are flushed before ServeHTTP returns and requests are
			// sequential, so the sink's growth is this request's record
			recs := parse(sink.From(off))
			off = sink.Len()
			where := "http-" + st.Phase
			if st.Resp.Panic != "" {
				out.Label("skipped:http-panic") // C03's subject
				return
			}
			if len(recs) != 1 {
				out.Violate(lib.Keyf("C38", "record-count", where), "call #%d %s %s (status %d) produced %d records", ci, call.Kind, st.Path, st.Resp.Status, len(recs))
				return
			}
			r := recs[0]
			if m, _ := asString(r["method"]); m != call.Method {
				out.Violate("C38/record-names-other-method", "request %s logged as method %q", st.Path, m)
			}
			wantType := "stream"
			if call.Kind == "unary" {
				wantType = "unary"
			}
			if mt, _ := asString(r["method_type"]); mt != wantType {
				out.Violate("C38/record-names-other-type", "request %s logged as method_type %q", st.Path, mt)
			}
			// byte counts: what crossed the wire in both directions
			if n, ok := asInt(r["request_bytes"]); !ok || n != int64(st.Sent) {
				out.Violate(lib.Keyf("C38", "request-bytes", fmt.Sprintf("reqzstd=%v", call.ReqZstd)), "%s: sent a %d-byte body, record has request_bytes=%v", st.Path, st.Sent, r["request_bytes"])
			}
			if n, ok := asInt(r["response_bytes"]); !ok || n != int64(len(st.Resp.Body)) {
				out.Violate(lib.Keyf("C38", "response-bytes", "coding="+st.Resp.Coding), "%s: received a %d-byte body (coding %q, %d decoded), record has response_bytes=%v",
					st.Path, len(st.Resp.Body), st.Resp.Coding, len(st.Resp.Decoded), r["response_bytes"])
			}
			if st.Resp.Coding != "" {
				out.Label("compressed", "coding:"+st.Resp.Coding)
				if len(st.Resp.Decoded) >= 1024 {
					out.Label("compressed-1k")
					out.NonTrivial = true
				}
			}
			if call.ReqZstd {
				out.Label("request-compressed")
			}
			if st.Failed {
				out.Label("failed:" + st.Phase)
			}
			switch st.Phase {
			case "unary", "init":
				checkPayload(&out, r, st.ReqBatch, c, where)
			}
			if call.Kind != "unary" {
				sid, _ := asString(r["stream_id"])
				if st.Phase == "init" {
					streamID = sid
				} else {
					conts++
					if sid != streamID {
						out.Violate("C38/stream-id-changes", "%s continuation #%d has stream_id %q, the stream's init had %q", call.Method, conts, sid, streamID)
					}
					if conts == 2 {
						out.Label("stream-2cont")
						out.NonTrivial = true
						if c.ColdConts {
							out.Label("stream-2cont-cold")
						}
					}
					if _, isCancel := r["cancelled"]; isCancel {
						out.Label("cancelled")
					}
				}
			}
			checkClaims(&out, r, c)
		})
	}
	return
}

var propC38 = lib.Prop[c38Case]{
	ID: "C38",
	Rule: "histories on a scripted service with an AccessLogHook installed: pipe sessions of 1-8 calls (every call kind of the C02 generator, unique request ids) or HTTP histories of 1-5 calls " +
		"(or, in an eighth of the cases, 2-6 HTTP unary calls with payloads of repeating, shrinking and growing sizes of which some are held inside their handler by the harness while the later ones start, finish or are held too, released in a drawn order: each call's record must describe that call) " +
		"(unary incl. bad parameter batches; producer streams with a batch limit of 1-3 followed to the end; exchange streams of 1-3 turns, optionally cancelled; response compression (zstd or gzip, via X-VGI-Accept-Encoding or Accept-Encoding) asked for on 5/7 of the calls, in a third of the cases every continuation is served by a second HttpServer instance with a cold call-state cache, " +
		"zstd request bodies on 1/4), debug on/off, server_version set/unset, a trace-context provider (none, valid, dashed, upper-case, one half, short, long, panicking), an authenticated caller with 0-6 claims " +
		"(sensitive, benign and undecided names; scalar, list and nested values) and a redactor (default, NoClaimRedaction, custom, custom returning nothing, panicking). " +
		"Oracle per output line: one JSON object, the 16 pinned required fields with their types plus typed optional fields, 32-hex stream_id on stream records and equal across init and continuations (HTTP), " +
		"trace_id/span_id both well-formed or both absent (and equal to the provider's when it was valid), request_data decoding to the sent batch (debug) xor truncated=payload_omitted + original_request_bytes on unary/init records, " +
		"claims judged against a reference list of sensitive names, request_bytes = Content-Length sent and response_bytes = len(body received). " +
		"Non-trivial: a stream with >=2 continuations, or a compressed response whose decoded body is >= 1 KiB.",
	Gen: genC38,
	Run: runC38,
	Essential: []string{"transport:pipe", "transport:http", "overlap", "overlap:several-held", "debug:true", "debug:false", "stream-2cont", "compressed-1k", "trace:valid", "trace:panic", "trace:dashed",
		"redactor:panic", "redactor:none", "redactor:custom", "stream-2cont-cold", "coding:zstd", "coding:gzip", "claims:sensitive", "claims:benign", "claims:nested", "request-compressed", "call:exchange", "call:producer"},
	EssentialMin: 200,
	Assumptions: []string{
		"the access-log field contract is pinned from /repo/CLAUDE.md, the accesslog*.go doc comments and the record assembled in OnDispatchEnd; the Python JSON schema is not in the sandbox",
		"HTTP requests of a history are issued sequentially, so the log sink's growth during one ServeHTTP call is that request's record",
	},
}

func TestC38(t *testing.T) { lib.Check(t, propC38) }
