package g_obs

// Shared helpers of the observability group (C38 access-log records, C39
// sampling/async emission, C43 OpenTelemetry hook): a scripted server, an HTTP
// reference client that follows stream cursors, a JSON-lines reader and small
// generators. Everything here is harness code; nothing is copied from /repo.

import (
	"bytes"
	"encoding/json"
	"fmt"
	"io"
	"log/slog"
	"net/http"
	"strconv"
	"strings"
	"sync"

	"github.com/Query-farm/vgi-rpc-go/vgirpc"
	"github.com/apache/arrow-go/v18/arrow"
	"github.com/apache/arrow-go/v18/arrow/array"
	"github.com/klauspost/compress/zstd"
	"pgregory.net/rapid"

	"verifharness/lib"
)

func init() {
	// the code under test reports contained hook/redactor panics through slog;
	// keep the worker logs readable
	slog.SetDefault(slog.New(slog.NewTextHandler(io.Discard, nil)))
}

var obsTokenKey = []byte("0123456789abcdef0123456789abcdef")

func newObsServer() *vgirpc.Server {
	srv := vgirpc.NewServer()
	srv.SetServerID("srv-obs")
	srv.SetServiceName("ObsService")
	lib.RegisterScripted(srv)
	return srv
}

func newObsHTTP(srv *vgirpc.Server, batchLimit int) *vgirpc.HttpServer {
	hs, err := vgirpc.NewHttpServerWithKey(srv, obsTokenKey)
	if err != nil {
		panic(err)
	}
	if batchLimit > 0 {
		hs.SetProducerBatchLimit(batchLimit)
	}
	// the HTML pages are rendered on a server's first request; they are not
	// this group's subject and a fresh server is built for every case
	hs.SetEnableLandingPage(false)
	hs.SetEnableDescribePage(false)
	hs.SetEnableNotFoundPage(false)
	return hs
}

// lockedBuf is an io.Writer safe to read while a writer goroutine appends.
type lockedBuf struct {
	mu sync.Mutex
	b  bytes.Buffer
	n  int // Write calls
}

func (l *lockedBuf) Write(p []byte) (int, error) {
	l.mu.Lock()
	defer l.mu.Unlock()
	l.n++
	return l.b.Write(p)
}

func (l *lockedBuf) Len() int {
	l.mu.Lock()
	defer l.mu.Unlock()
	return l.b.Len()
}

// From returns a copy of everything written at or after offset off.
func (l *lockedBuf) From(off int) []byte {
	l.mu.Lock()
	defer l.mu.Unlock()
	return append([]byte{}, l.b.Bytes()[off:]...)
}

// ---- JSON lines ----

type logLine struct {
	Raw string
	Rec map[string]any // nil when the line is not one JSON object
	Err string
}

// splitLines cuts the sink contents into lines and decodes each as exactly one
// JSON object (numbers kept as json.Number so integer-ness is checkable).
func splitLines(data []byte) (lines []logLine, unterminated bool) {
	if len(data) == 0 {
		return nil, false
	}
	parts := strings.Split(string(data), "\n")
	if parts[len(parts)-1] != "" {
		unterminated = true
	} else {
		parts = parts[:len(parts)-1]
	}
	for _, p := range parts {
		ll := logLine{Raw: p}
		dec := json.NewDecoder(strings.NewReader(p))
		dec.UseNumber()
		var v any
		if err := dec.Decode(&v); err != nil {
			ll.Err = err.Error()
		} else if m, ok := v.(map[string]any); !ok {
			ll.Err = fmt.Sprintf("top-level value is %T, not an object", v)
		} else if dec.More() {
			ll.Err = "more than one JSON value on the line"
		} else {
			ll.Rec = m
		}
		lines = append(lines, ll)
	}
	return lines, unterminated
}

func asString(v any) (string, bool) { s, ok := v.(string); return s, ok }

func asInt(v any) (int64, bool) {
	n, ok := v.(json.Number)
	if !ok {
		return 0, false
	}
	i, err := strconv.ParseInt(string(n), 10, 64)
	return i, err == nil
}

func asFloat(v any) (float64, bool) {
	n, ok := v.(json.Number)
	if !ok {
		return 0, false
	}
	f, err := n.Float64()
	return f, err == nil
}

func isLowerHexN(s string, n int) bool {
	if len(s) != n {
		return false
	}
	for i := 0; i < len(s); i++ {
		c := s[i]
		if !(c >= '0' && c <= '9') && !(c >= 'a' && c <= 'f') {
			return false
		}
	}
	return true
}

func canonJSON(v any) string {
	b, err := json.Marshal(v) // map keys are sorted by encoding/json
	if err != nil {
		return "<unmarshalable:" + err.Error() + ">"
	}
	return string(b)
}

// ---- HTTP call specs and the cursor-following client ----

// hCall is one generated call over HTTP: a unary POST, or a stream's /init
// followed by its continuations.
type hCall struct {
	Kind       string            `json:"kind"` // unary | producer | exchange
	Method     string            `json:"method"`
	Unary      *lib.UnaryScript  `json:"unary,omitempty"`
	Stream     *lib.StreamScript `json:"stream,omitempty"`
	BadParams  string            `json:"bad_params,omitempty"`
	Exchanges  [][]int64         `json:"exchanges,omitempty"` // exchange: one input batch per turn
	Cancel     bool              `json:"cancel,omitempty"`    // exchange: finish with a cancel continuation
	RequestID  string            `json:"request_id,omitempty"`
	XRequestID string            `json:"x_request_id,omitempty"`
	Accept     string            `json:"accept,omitempty"`   // "" | x:zstd | x:gzip | std:zstd | std:gzip (X-VGI-Accept-Encoding / Accept-Encoding)
	ReqZstd    bool              `json:"req_zstd,omitempty"`    // request body sent zstd-compressed
	// trace context sent with every request of the call (C43)
	Traceparent string `json:"traceparent,omitempty"`
	Tracestate  string `json:"tracestate,omitempty"`
	TraceVia    string `json:"trace_via,omitempty"` // header (default) | meta (IPC metadata; unary/init only)
}

const maxProducerConts = 6

// hStep is one HTTP request of a call and what came back.
type hStep struct {
	Phase    string // unary | init | cont
	Path     string
	Sent     int // Content-Length sent (bytes on the wire)
	Resp     lib.HTTPResp
	Streams  []lib.StreamM
	Failed   bool              // the response reports an error
	ReqBatch arrow.RecordBatch // unary/init: the request batch as decoded by the harness codec
}

func paramsBatch(script, bad string) arrow.RecordBatch {
	switch bad {
	case "wrongtype":
		s := arrow.NewSchema([]arrow.Field{{Name: "script", Type: arrow.PrimitiveTypes.Int64}}, nil)
		return lib.Int64Batch(s, 7)
	case "renamed":
		s := arrow.NewSchema([]arrow.Field{{Name: "skript", Type: arrow.BinaryTypes.String}}, nil)
		sb := array.NewStringBuilder(lib.Mem)
		sb.Append(script)
		return array.NewRecordBatch(s, []arrow.Array{sb.NewArray()}, 1)
	case "extracol":
		s := arrow.NewSchema([]arrow.Field{{Name: "script", Type: arrow.BinaryTypes.String}, {Name: "extra", Type: arrow.PrimitiveTypes.Int64}}, nil)
		sb := array.NewStringBuilder(lib.Mem)
		sb.Append(script)
		ib := array.NewInt64Builder(lib.Mem)
		ib.Append(1)
		return array.NewRecordBatch(s, []arrow.Array{sb.NewArray(), ib.NewArray()}, 1)
	}
	return lib.ScriptBatch(script)
}

func (c hCall) script() string {
	if c.Kind == "unary" {
		return c.Unary.JSON()
	}
	return c.Stream.JSON()
}

func respFailed(r lib.HTTPResp, streams []lib.StreamM) bool {
	if r.Panic != "" || r.Status >= 400 || r.IsRPCError() {
		return true
	}
	for _, st := range streams {
		for _, b := range st.Batches {
			if b.Kind() == "error" {
				return true
			}
		}
	}
	return false
}

// findTokens returns the last cursor in the response and the call token (if
// the response carries one).
func findTokens(streams []lib.StreamM) (cursor, call string) {
	for _, st := range streams {
		for _, b := range st.Batches {
			if v, ok := b.Get(lib.KStreamState); ok {
				cursor = v
			}
			if v, ok := b.Get(lib.KCallState); ok {
				call = v
			}
		}
	}
	return
}

var emptyArrowSchema = arrow.NewSchema(nil, nil)

var zstdEnc, _ = zstd.NewWriter(nil)

// driveHCall performs the call's requests in order, invoking each after every
// response (the hooks under test have fully run by then: ServeHTTP returned).
func driveHCall(h http.Handler, c hCall, baseHdr map[string]string, each func(hStep)) {
	hdr := map[string]string{}
	for k, v := range baseHdr {
		hdr[k] = v
	}
	switch {
	case strings.HasPrefix(c.Accept, "x:"):
		hdr["X-VGI-Accept-Encoding"] = c.Accept[2:]
	case strings.HasPrefix(c.Accept, "std:"):
		hdr["Accept-Encoding"] = c.Accept[4:]
	}
	if c.XRequestID != "" {
		hdr["X-Request-ID"] = c.XRequestID
	}
	opts := lib.ReqOpts{RequestID: c.RequestID}
	if c.Traceparent != "" {
		if c.TraceVia == "meta" {
			opts.Extra = append(opts.Extra, [2]string{"traceparent", c.Traceparent})
			if c.Tracestate != "" {
				opts.Extra = append(opts.Extra, [2]string{"tracestate", c.Tracestate})
			}
		}
	}
	post := func(phase, path string, body []byte, withTrace bool) hStep {
		h2 := map[string]string{}
		for k, v := range hdr {
			h2[k] = v
		}
		if withTrace && c.Traceparent != "" {
			h2["Traceparent"] = c.Traceparent
			if c.Tracestate != "" {
				h2["Tracestate"] = c.Tracestate
			}
		}
		wire := body
		if c.ReqZstd {
			wire = zstdEnc.EncodeAll(body, nil)
			h2["Content-Encoding"] = "zstd"
		}
		resp := lib.PostArrow(h, path, wire, h2)
		st := hStep{Phase: phase, Path: path, Sent: len(wire), Resp: resp}
		if resp.Decoded != nil {
			st.Streams, _ = lib.SplitStreams(resp.Decoded)
		}
		st.Failed = respFailed(resp, st.Streams)
		return st
	}
	headerTrace := c.TraceVia != "meta"
	reqBody := lib.BuildRequest(c.Method, paramsBatch(c.script(), c.BadParams), opts)
	reqBatch, _ := lib.DecodeOne(reqBody)
	if c.Kind == "unary" {
		st := post("unary", "/"+c.Method, reqBody, headerTrace)
		st.ReqBatch = reqBatch.Rec
		each(st)
		return
	}
	st := post("init", "/"+c.Method+"/init", reqBody, headerTrace)
	st.ReqBatch = reqBatch.Rec
	each(st)
	cursor, call := findTokens(st.Streams)
	if st.Failed || cursor == "" {
		return
	}
	cont := func(b arrow.RecordBatch, extraKeys, extraVals []string) hStep {
		keys := append([]string{lib.KStreamState, lib.KCallState}, extraKeys...)
		vals := append([]string{cursor, call}, extraVals...)
		body := lib.EncodeStream(b.Schema(), lib.WithMeta(b, keys, vals))
		// continuations carry no request metadata of their own: trace context
		// can only travel in the HTTP headers (so none is sent with TraceVia=meta)
		return post("cont", "/"+c.Method+"/exchange", body, headerTrace)
	}
	if c.Kind == "producer" {
		for i := 0; i < maxProducerConts && cursor != ""; i++ {
			s := cont(array.NewRecordBatch(emptyArrowSchema, nil, 0), nil, nil)
			each(s)
			if s.Failed {
				return
			}
			cursor, _ = findTokens(s.Streams)
		}
		return
	}
	for _, vals := range c.Exchanges {
		s := cont(lib.Int64Batch(lib.InSchema, vals...), nil, nil)
		each(s)
		next, _ := findTokens(s.Streams)
		if s.Failed || next == "" {
			return
		}
		cursor = next
	}
	if c.Cancel {
		each(cont(array.NewRecordBatch(emptyArrowSchema, nil, 0), []string{lib.KCancel}, []string{"true"}))
	}
}

// ---- generators ----

var hUnaryMethods = []string{"u_str", "u_int", "u_bytes", "u_struct", "u_void"}

func genHex(t *rapid.T, n int, label string) string {
	const digits = "0123456789abcdef"
	b := make([]byte, n)
	for i := range b {
		lo := 0
		if i == 0 {
			lo = 1 // never all-zero
		}
		b[i] = digits[rapid.IntRange(lo, 15).Draw(t, label)]
	}
	return string(b)
}

// genHCall draws one HTTP call. big raises the chance of bodies >= 1 KiB.
func genHCall(t *rapid.T, i int) hCall {
	id := lib.CallID(i)
	c := hCall{}
	switch k := rapid.IntRange(0, 9).Draw(t, "hkind"); {
	case k < 4:
		c.Kind = "unary"
		c.Method = hUnaryMethods[rapid.IntRange(0, len(hUnaryMethods)-1).Draw(t, "humethod")]
		c.Unary = lib.GenUnaryScript(t, id)
		if rapid.IntRange(0, 2).Draw(t, "hbig") == 0 {
			c.Unary.Size = rapid.IntRange(1100, 5000).Draw(t, "hsize")
			c.Unary.Value = strings.Repeat("v", rapid.IntRange(1100, 3000).Draw(t, "hvalue"))
		}
		if rapid.IntRange(0, 7).Draw(t, "hubad") == 0 {
			c.BadParams = []string{"wrongtype", "extracol", "renamed"}[rapid.IntRange(0, 2).Draw(t, "hubadk")]
		}
	case k < 7:
		c.Kind = "producer"
		c.Method = []string{"s_prod", "s_prod", "s_prod_h", "s_dyn"}[rapid.IntRange(0, 3).Draw(t, "hpmethod")]
		c.Stream = lib.GenStreamScript(t, id, false, 8)
		if c.Method == "s_dyn" {
			c.Stream.DynKind = "producer"
			c.Stream.DynNarrow = rapid.Bool().Draw(t, "hnarrow")
		}
	default:
		c.Kind = "exchange"
		c.Method = []string{"s_exch", "s_exch", "s_exch_h", "s_dyn"}[rapid.IntRange(0, 3).Draw(t, "hxmethod")]
		c.Stream = lib.GenStreamScript(t, id, true, 4)
		if c.Method == "s_dyn" {
			c.Stream.DynKind = "exchange"
			c.Stream.DynInput = true
			c.Stream.DynNarrow = rapid.Bool().Draw(t, "hnarrow")
		}
		n := rapid.IntRange(1, 3).Draw(t, "hturns")
		for j := 0; j < n; j++ {
			var vals []int64
			nv := rapid.IntRange(0, 3).Draw(t, "hnvals")
			for v := 0; v < nv; v++ {
				vals = append(vals, int64(rapid.IntRange(-50, 50).Draw(t, "hval")))
			}
			c.Exchanges = append(c.Exchanges, vals)
		}
		c.Cancel = rapid.IntRange(0, 3).Draw(t, "hcancel") == 0
	}
	if c.Stream != nil {
		// the shared turn generator fails a third of the turns; streams that
		// live for several continuations are what this group is after
		for j := range c.Stream.Turns {
			switch c.Stream.Turns[j].Act {
			case "error", "emit2", "emit_then_error", "finishx_err", "noemit":
				if rapid.IntRange(0, 2).Draw(t, "hkeepfail") != 0 {
					c.Stream.Turns[j].Act, c.Stream.Turns[j].Err = "emit", nil
				}
			}
		}
		if rapid.IntRange(0, 6).Draw(t, "hsbad") == 0 {
			c.BadParams = []string{"wrongtype", "extracol", "renamed"}[rapid.IntRange(0, 2).Draw(t, "hsbadk")]
		}
		if rapid.IntRange(0, 2).Draw(t, "hpad") == 0 {
			pad := rapid.IntRange(400, 2500).Draw(t, "hpadn")
			for j := range c.Stream.Turns {
				c.Stream.Turns[j].Pad = pad
			}
		}
	}
	if rapid.IntRange(0, 3).Draw(t, "hrid") != 0 {
		c.RequestID = fmt.Sprintf("rid-%d", i)
	}
	if rapid.IntRange(0, 2).Draw(t, "hxrid") == 0 {
		c.XRequestID = fmt.Sprintf("xrid-%d", i)
	}
	c.Accept = []string{"", "", "x:zstd", "x:zstd", "x:gzip", "std:zstd", "std:gzip"}[rapid.IntRange(0, 6).Draw(t, "haccept")]
	c.ReqZstd = rapid.IntRange(0, 3).Draw(t, "hreqz") == 0
	return c
}
