package g_obs

import (
	"context"
	"fmt"
	"strings"
	"sync"
	"time"

	"github.com/Query-farm/vgi-rpc-go/vgirpc"
	"pgregory.net/rapid"

	"verifharness/lib"
)

// C38, overlapping calls: a record describes its own call also when other
// calls were dispatched between this call's start and its end. The harness
// owns the schedule: held calls park inside their handler until released.

type c38OverlapCall struct {
	Hold bool `json:"hold,omitempty"` // parks in its handler until every later call has started (pass-through calls: finished)
	Pad  int  `json:"pad"`            // bytes of padding in the request's parameter (distinguishes the payloads)
}

type c38Overlap struct {
	Calls   []c38OverlapCall `json:"calls"`
	Release []int            `json:"release"` // order in which held calls are let go (indices into the held ones, as drawn)
}

func genC38Overlap(t *rapid.T) *c38Overlap {
	o := &c38Overlap{}
	n := rapid.IntRange(2, 6).Draw(t, "ovn")
	held := 0
	for i := 0; i < n; i++ {
		c := c38OverlapCall{Hold: i == 0 || rapid.IntRange(0, 2).Draw(t, "ovhold") == 0,
			// payloads that shrink, grow and repeat: a later request may fit inside an earlier one's storage
			Pad: []int{0, 1, 7, 64, 64, 500, 4000}[rapid.IntRange(0, 6).Draw(t, "ovpad")]}
		if c.Hold {
			held++
		}
		o.Calls = append(o.Calls, c)
	}
	o.Release = rapid.Permutation(seq(held)).Draw(t, "ovrel")
	return o
}

func seq(n int) []int {
	s := make([]int, n)
	for i := range s {
		s[i] = i
	}
	return s
}

type overlapGates struct {
	mu      sync.Mutex
	entered map[string]chan struct{}
	release map[string]chan struct{}
}

var ovGates = &overlapGates{entered: map[string]chan struct{}{}, release: map[string]chan struct{}{}}

func (g *overlapGates) arm(id string) (entered, release chan struct{}) {
	g.mu.Lock()
	defer g.mu.Unlock()
	entered, release = make(chan struct{}), make(chan struct{})
	g.entered[id], g.release[id] = entered, release
	return
}

func (g *overlapGates) get(id string) (entered, release chan struct{}) {
	g.mu.Lock()
	defer g.mu.Unlock()
	return g.entered[id], g.release[id]
}

// registerGate adds u_gate: script "hold:<id>:<pad>" parks until released,
// "pass:<id>:<pad>" returns at once.
func registerGate(srv *vgirpc.Server) {
	vgirpc.Unary(srv, "u_gate", func(_ context.Context, _ *vgirpc.CallContext, p lib.ScriptParams) (string, error) {
		parts := strings.SplitN(p.Script, ":", 3)
		if len(parts) >= 2 && parts[0] == "hold" {
			if entered, release := ovGates.get(parts[1]); entered != nil {
				close(entered)
				<-release
			}
		}
		return parts[1], nil
	})
}

func runC38Overlap(c c38Case) (out lib.Outcome) {
	o := c.Overlap
	sink := &lockedBuf{}
	hook := vgirpc.NewAccessLogHook(sink, c.Version)
	hook.SetDebug(c.Debug)
	srv := newObsServer()
	registerGate(srv)
	srv.SetDispatchHook(hook)
	hs := newObsHTTP(srv, 0)
	out.Label("overlap", fmt.Sprintf("debug:%v", c.Debug))

	type sentCall struct {
		rid    string
		script string
		done   chan lib.HTTPResp
	}
	var calls []sentCall
	var heldIdx []int
	for i, oc := range o.Calls {
		id := fmt.Sprintf("ov%d", i)
		kind := "pass"
		if oc.Hold {
			kind = "hold"
		}
		sc := sentCall{rid: "rid-" + id, script: kind + ":" + id + ":" + strings.Repeat(string(rune('a'+i)), oc.Pad), done: make(chan lib.HTTPResp, 1)}
		calls = append(calls, sc)
		req := lib.BuildRequest("u_gate", lib.ScriptBatch(sc.script), lib.ReqOpts{RequestID: sc.rid})
		var entered chan struct{}
		if oc.Hold {
			entered, _ = ovGates.arm(id)
			heldIdx = append(heldIdx, i)
		}
		go func() { sc.done <- lib.PostArrow(hs, "/u_gate", req, nil) }()
		if oc.Hold {
			select {
			case <-entered:
			case <-time.After(60 * time.Second):
				out.Label("discarded:held-call-never-entered")
				out.Skipped = true
				return
			}
		} else {
			<-sc.done
		}
	}
	for _, k := range o.Release {
		_, release := ovGates.get(fmt.Sprintf("ov%d", heldIdx[k]))
		close(release)
		<-calls[heldIdx[k]].done
	}
	// every call has returned: one record each, describing that call
	lines, _ := splitLines(sink.From(0))
	byRID := map[string][]map[string]any{}
	for _, l := range lines {
		if l.Rec == nil {
			out.Violate("C38/line-not-json-object", "log line is not one JSON object (%s): %q", l.Err, lib.Short(l.Raw, 300))
			continue
		}
		rid, _ := asString(l.Rec["request_id"])
		byRID[rid] = append(byRID[rid], l.Rec)
	}
	for i, sc := range calls {
		mine := byRID[sc.rid]
		if len(mine) != 1 {
			out.Violate("C38/record-count-overlap", "overlapping call #%d produced %d records", i, len(mine))
			continue
		}
		checkPayload(&out, mine[0], lib.ScriptBatch(sc.script), c, "overlap")
	}
	out.NonTrivial = len(heldIdx) >= 1 && len(o.Calls) >= 3
	if len(heldIdx) >= 2 {
		out.Label("overlap:several-held")
	}
	return
}
