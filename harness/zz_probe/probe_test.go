package zz_probe

import (
	"context"
	"fmt"
	"net/http"
	"net/http/httptest"
	"strings"
	"testing"

	"github.com/Query-farm/vgi-rpc-go/vgirpc"
	"github.com/apache/arrow-go/v18/arrow"

	"verifharness/lib"
)

type exState struct{}

var sawKeys []string

func (s *exState) Exchange(_ context.Context, in arrow.RecordBatch, out *vgirpc.OutputCollector, cc *vgirpc.CallContext) error {
	if wm, ok := in.(arrow.RecordBatchWithMetadata); ok {
		sawKeys = append(sawKeys, wm.Metadata().Keys()...)
	}
	return out.Emit(in)
}

type p struct {
	X int64 `vgirpc:"x"`
}

func TestProbeC16(t *testing.T) {
	vgirpc.RegisterStateType(&exState{})
	srv := vgirpc.NewServer()
	sch := arrow.NewSchema([]arrow.Field{{Name: "x", Type: arrow.PrimitiveTypes.Int64}}, nil)
	vgirpc.Exchange(srv, "ex", sch, sch, func(_ context.Context, _ *vgirpc.CallContext, _ p) (*vgirpc.StreamResult, error) {
		return &vgirpc.StreamResult{OutputSchema: sch, State: &exState{}}, nil
	})
	h, _ := vgirpc.NewHttpServerWithKey(srv, []byte("0123456789abcdef0123456789abcdef"))
	pb := lib.Int64Batch(sch, 1)
	req := lib.BuildRequest("ex", pb, lib.ReqOpts{})
	r := lib.PostArrow(h, "/ex/init", req, nil)
	ss, _ := lib.SplitStreams(r.Decoded)
	cur, call := "", ""
	for _, st := range ss {
		for _, b := range st.Batches {
			if v, ok := b.Get(lib.KStreamState); ok {
				cur = v
			}
			if v, ok := b.Get(lib.KCallState); ok {
				call = v
			}
		}
	}
	t.Logf("init status %d cursor=%v call=%v", r.Status, cur != "", call != "")
	x := lib.HTTPContinue(h, "", "ex", lib.Int64Batch(sch, 5), cur, call, nil, nil)
	t.Logf("exchange status %d; handler saw batch metadata keys: %v", x.Resp.Status, sawKeys)
}

func TestProbeC28(t *testing.T) {
	srv := vgirpc.NewServer()
	h, _ := vgirpc.NewHttpServerWithKey(srv, []byte("0123456789abcdef0123456789abcdef"))
	md := &vgirpc.OAuthResourceMetadata{Resource: `https://api.example.com/x?y=", client_id="evil`, AuthorizationServers: []string{"https://as.example.com"}, ClientID: "real"}
	if err := h.SetOAuthResourceMetadata(md); err != nil {
		t.Logf("validation refused: %v", err)
		return
	}
	h.SetAuthenticate(func(*http.Request) (*vgirpc.AuthContext, error) {
		return nil, &vgirpc.RpcError{Type: "ValueError", Message: "no"}
	})
	w := httptest.NewRecorder()
	r := httptest.NewRequest("POST", "/nope", strings.NewReader(""))
	r.Header.Set("Content-Type", "application/vnd.apache.arrow.stream")
	h.ServeHTTP(w, r)
	hv := w.Header().Get("WWW-Authenticate")
	t.Logf("status %d WWW-Authenticate: %s", w.Code, hv)
	t.Logf("ParseClientID=%q", vgirpc.ParseClientID(hv))
	_ = fmt.Sprint
}
