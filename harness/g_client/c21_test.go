package g_client

import (
	"bytes"
	"context"
	"errors"
	"fmt"
	"io"
	"net"
	"net/http"
	"net/http/httptest"
	"os"
	"strings"
	"sync"
	"testing"

	"github.com/Query-farm/vgi-rpc-go/vgirpc"
	"github.com/apache/arrow-go/v18/arrow"
	"github.com/klauspost/compress/zstd"
	"pgregory.net/rapid"

	"verifharness/lib"
)

// C21 — the native HTTP client returns the server's stream and never replays a cursor.

type c21Fault struct {
	Kind string `json:"kind"` // pass | err_before | err_after | truncate | flip | status | coding_unknown | coding_lie | strip_cursor | schema_drift | trailing | oversize
	N    int    `json:"n,omitempty"`
	Code int    `json:"code,omitempty"`
	// real-wire cases only: Close = the response to this request says "Connection: close", so the next request
	// travels on a fresh connection instead of the reused keep-alive one; Reset = a dropped connection is reset
	// (RST) rather than closed (FIN).
	Close bool `json:"close,omitempty"`
	Reset bool `json:"reset,omitempty"`
}

type c21Case struct {
	Exchange bool             `json:"exchange"`
	Script   lib.StreamScript `json:"script"`
	Inputs   []int64          `json:"inputs"` // one value per exchange turn
	Faults   []c21Fault       `json:"faults"` // per HTTP request, in order
	Limit    int              `json:"limit"`
	MaxDec   int64            `json:"max_decoded"`
	// Real: the client talks through a real net/http transport and TCP connections to a front end that applies the
	// fault script on the wire (err_before / err_after = the peer closes the connection after receiving the request,
	// before / after the worker handled it, without sending a response byte). Otherwise the faults are applied by a
	// RoundTripper injected into the client. DefaultClient: the client's own default http.Client (shared pooled
	// transport) instead of an injected one with its own http.Transport.
	Real          bool `json:"real,omitempty"`
	DefaultClient bool `json:"default_client,omitempty"`
}

var mustFail = map[string]bool{"err_before": true, "err_after": true, "status": true, "coding_unknown": true, "coding_lie": true,
	"strip_cursor": true, "schema_drift": true, "trailing": true, "oversize": true, "cut": true, "cut_boundary": true}

func genC21(t *rapid.T) c21Case {
	c := c21Case{Exchange: rapid.Bool().Draw(t, "exchange"), Limit: rapid.IntRange(1, 3).Draw(t, "limit"), MaxDec: 1 << 20}
	s := lib.StreamScript{ID: lib.CallID(0), InitOutcome: "ok"}
	n := rapid.IntRange(1, 8).Draw(t, "nturns")
	for i := 0; i < n; i++ {
		// -1 stands for a zero-row batch (an empty partition, a fully filtered chunk)
		tu := lib.TurnSpec{Act: "emit", Rows: []int{-1, 1, 2, 3, 1}[rapid.IntRange(0, 4).Draw(t, "rows")]}
		if rapid.IntRange(0, 9).Draw(t, "fail") == 0 {
			tu = lib.TurnSpec{Act: "error", Err: &lib.ErrSpec{Kind: "rpc", Type: "ValueError", Msg: "turn failed"}}
		}
		if rapid.IntRange(0, 4).Draw(t, "meta") == 0 {
			tu.Meta = [][2]string{{"vgi_batch_index", fmt.Sprint(i)}}
		}
		s.Turns = append(s.Turns, tu)
		c.Inputs = append(c.Inputs, int64(rapid.IntRange(-5, 5).Draw(t, "in")))
	}
	c.Script = s
	kinds := []string{"pass", "pass", "pass", "pass", "pass", "err_before", "err_after", "truncate", "cut", "cut_boundary", "cut_boundary", "flip", "status", "coding_unknown", "coding_lie", "strip_cursor", "schema_drift", "trailing", "oversize"}
	c.Real = rapid.IntRange(0, 3).Draw(t, "real") == 0
	codes := []int{400, 401, 404, 413, 500, 502, 503, 301, 199}
	if c.Real {
		c.DefaultClient = rapid.Bool().Draw(t, "defaultclient")
		// on the wire the connection-level faults are the ones an injected RoundTripper cannot produce
		kinds = append(kinds, "pass", "pass", "pass", "err_after", "err_after", "err_after", "err_before")
		codes = codes[:len(codes)-1] // a real server cannot answer with a final 1xx status
	}
	for i := 0; i < n+2; i++ {
		f := c21Fault{Kind: kinds[rapid.IntRange(0, len(kinds)-1).Draw(t, "fault")]}
		f.N = rapid.IntRange(0, 1<<16).Draw(t, "fn")
		f.Code = codes[rapid.IntRange(0, len(codes)-1).Draw(t, "code")]
		if c.Real {
			f.Close = rapid.IntRange(0, 3).Draw(t, "fclose") == 0
			f.Reset = rapid.Bool().Draw(t, "freset")
		}
		c.Faults = append(c.Faults, f)
	}
	return c
}

// errReader fails every Read with its error.
type errReader struct{ err error }

func (e errReader) Read([]byte) (int, error) { return 0, e.err }

type recReq struct {
	Path   string
	Cursor string
	Reused bool // real wire: the request arrived on a connection that had carried an earlier request
}

type faultTransport struct {
	h      http.Handler
	faults []c21Fault
	maxDec int64
	mu     sync.Mutex // the front end of a real-wire case runs on the HTTP server's goroutines
	reqs   []recReq
	conns  map[string]bool // real wire: remote addresses seen
}

// fault returns the fault that applies to request i (after downgrades).
func (ft *faultTransport) fault(i int) c21Fault {
	ft.mu.Lock()
	defer ft.mu.Unlock()
	if i < len(ft.faults) {
		return ft.faults[i]
	}
	return c21Fault{Kind: "pass"}
}

// seen returns how many requests have reached the fault layer so far.
func (ft *faultTransport) seen() int {
	ft.mu.Lock()
	defer ft.mu.Unlock()
	return len(ft.reqs)
}

func (ft *faultTransport) requests() []recReq {
	ft.mu.Lock()
	defer ft.mu.Unlock()
	return append([]recReq{}, ft.reqs...)
}

// ServeHTTP is the real-wire front end: it applies the same fault script to requests that arrived over a TCP
// connection from a real net/http transport. Where the injected RoundTripper returns an error, the front end closes
// (or resets) the connection without having written a single response byte; a body cut short of its declared length
// is flushed as far as it goes and the connection is then dropped.
func (ft *faultTransport) ServeHTTP(w http.ResponseWriter, r *http.Request) {
	ft.mu.Lock()
	i := len(ft.reqs)
	if ft.conns == nil {
		ft.conns = map[string]bool{}
	}
	reused := ft.conns[r.RemoteAddr]
	ft.conns[r.RemoteAddr] = true
	ft.mu.Unlock()
	f := ft.fault(i)
	res, err := ft.RoundTrip(r)
	ft.mu.Lock()
	if i < len(ft.reqs) {
		ft.reqs[i].Reused = reused
	}
	ft.mu.Unlock()
	if err != nil {
		conn, _, herr := w.(http.Hijacker).Hijack()
		if herr != nil {
			panic(http.ErrAbortHandler)
		}
		if tc, ok := conn.(*net.TCPConn); ok && f.Reset {
			_ = tc.SetLinger(0)
		}
		_ = conn.Close()
		return
	}
	h := w.Header()
	for k, v := range res.Header {
		h[k] = v
	}
	if f.Close {
		h.Set("Connection", "close")
	}
	w.WriteHeader(res.StatusCode)
	if _, err := io.Copy(w, res.Body); err != nil {
		w.(http.Flusher).Flush()
		panic(http.ErrAbortHandler)
	}
}

// downgrade records that fault i could not be applied to the response it met
// (nothing to cut): the request counts as unfaulted.
func (ft *faultTransport) downgrade(i int) {
	ft.mu.Lock()
	defer ft.mu.Unlock()
	if i < len(ft.faults) {
		ft.faults[i].Kind = "pass"
	}
}

func (ft *faultTransport) RoundTrip(r *http.Request) (*http.Response, error) {
	body, _ := io.ReadAll(r.Body)
	rr := recReq{Path: r.URL.Path}
	if ss, err := lib.SplitStreams(body); err == nil {
		for _, st := range ss {
			for _, b := range st.Batches {
				if v, ok := b.Get(lib.KStreamState); ok {
					rr.Cursor = v
				}
			}
		}
	}
	ft.mu.Lock()
	i := len(ft.reqs)
	ft.reqs = append(ft.reqs, rr)
	ft.mu.Unlock()
	f := ft.fault(i)
	if f.Kind == "err_before" {
		return nil, errors.New("injected: connection refused")
	}
	req := httptest.NewRequest(r.Method, r.URL.Path, bytes.NewReader(body))
	req.Header = r.Header.Clone()
	rec := httptest.NewRecorder()
	ft.h.ServeHTTP(rec, req)
	if f.Kind == "err_after" {
		return nil, errors.New("injected: connection reset after the server handled the request")
	}
	res := rec.Result()
	raw, _ := io.ReadAll(res.Body)
	enc := res.Header.Get("Content-Encoding")
	custom := false
	if enc == "" {
		enc = res.Header.Get("X-VGI-Content-Encoding")
		custom = enc != ""
	}
	decoded := raw
	if strings.EqualFold(enc, "zstd") {
		d, _ := zstd.NewReader(nil)
		decoded, _ = d.DecodeAll(raw, nil)
		d.Close()
	}
	setBody := func(b []byte, keepEnc bool) {
		if !keepEnc {
			res.Header.Del("Content-Encoding")
			res.Header.Del("X-VGI-Content-Encoding")
		}
		res.Body = io.NopCloser(bytes.NewReader(b))
		res.ContentLength = int64(len(b))
		res.Header.Set("Content-Length", fmt.Sprint(len(b)))
	}
	reencode := func(mut func(st lib.StreamM) (*arrow.Schema, []arrow.RecordBatch)) []byte {
		ss, err := lib.SplitStreams(decoded)
		if err != nil || len(ss) == 0 {
			return decoded
		}
		var out bytes.Buffer
		for si, st := range ss {
			if si == len(ss)-1 {
				schema, batches := mut(st)
				out.Write(lib.EncodeStream(schema, batches...))
			} else {
				out.Write(decoded[st.Start:st.End])
			}
		}
		return out.Bytes()
	}
	// cutBody delivers only the first n bytes of b although all of b was
	// declared: the connection drops mid-body
	cutBody := func(b []byte, n int, keepEnc bool) {
		setBody(b, keepEnc)
		res.Body = io.NopCloser(io.MultiReader(bytes.NewReader(b[:n]), errReader{io.ErrUnexpectedEOF}))
	}
	switch f.Kind {
	case "truncate":
		if len(raw) > 0 {
			setBody(raw[:f.N%len(raw)], true)
		}
	case "cut":
		if len(raw) > 1 {
			cutBody(raw, f.N%(len(raw)-1), true)
		} else {
			ft.downgrade(i)
			setBody(raw, true)
		}
	case "cut_boundary":
		// an identity-coded body dropped exactly between two IPC messages of
		// its last stream: every byte that did arrive is well-formed
		ss, serr := lib.SplitStreams(decoded)
		var cuts []int
		var rebuilt []byte
		if serr == nil && len(ss) > 0 {
			last := ss[len(ss)-1]
			var recs []arrow.RecordBatch
			for _, b := range last.Batches {
				recs = append(recs, lib.WithMeta(b.Rec, b.Meta.Keys(), b.Meta.Values()))
			}
			rebuilt = append(append([]byte{}, decoded[:int(last.Start)]...), lib.EncodeStream(last.Schema, recs...)...)
			for k := 0; k < len(recs); k++ {
				cuts = append(cuts, int(last.Start)+len(lib.EncodeStream(last.Schema, recs[:k]...))-8)
			}
		}
		if len(cuts) == 0 {
			ft.downgrade(i)
			setBody(raw, true)
		} else {
			cutBody(rebuilt, cuts[f.N%len(cuts)], false)
		}
	case "flip":
		if len(raw) > 0 {
			b := append([]byte{}, raw...)
			b[f.N%len(b)] ^= 0x55
			setBody(b, true)
		}
	case "status":
		res.StatusCode = f.Code
		setBody(raw, true)
	case "coding_unknown":
		setBody(decoded, false)
		res.Header.Set("Content-Encoding", "br")
	case "coding_lie":
		// claims zstd (or, when the body was zstd, gzip) but the bytes are not that
		setBody(decoded, false)
		res.Header.Set("Content-Encoding", "zstd")
		if len(decoded) >= 4 && bytes.Equal(decoded[:4], []byte{0x28, 0xb5, 0x2f, 0xfd}) {
			res.Header.Set("Content-Encoding", "gzip")
		}
	case "strip_cursor":
		setBody(reencode(func(st lib.StreamM) (*arrow.Schema, []arrow.RecordBatch) {
			var bs []arrow.RecordBatch
			for _, b := range st.Batches {
				var keys, vals []string
				for i, k := range b.Meta.Keys() {
					if k != lib.KStreamState {
						keys, vals = append(keys, k), append(vals, b.Meta.Values()[i])
					}
				}
				if b.Kind() == "token" {
					continue // a bare token batch without its cursor is dropped altogether
				}
				bs = append(bs, lib.WithMeta(b.Rec, keys, vals))
			}
			return st.Schema, bs
		}), false)
	case "schema_drift":
		setBody(reencode(func(st lib.StreamM) (*arrow.Schema, []arrow.RecordBatch) {
			other := arrow.NewSchema([]arrow.Field{{Name: "i", Type: arrow.PrimitiveTypes.Int32}, {Name: "s", Type: arrow.BinaryTypes.String, Nullable: true}}, nil)
			return other, nil
		}), false)
	case "trailing":
		setBody(append(append([]byte{}, decoded...), []byte("trailing-garbage")...), false)
	case "oversize":
		pad := lib.MakeOut(lib.OutSchema, 0, 1, int(ft.maxDec)+1024)
		big := append(append([]byte{}, decoded...), lib.EncodeStream(lib.OutSchema, pad)...)
		setBody(big, false)
	default:
		setBody(raw, true)
	}
	_ = custom
	if os.Getenv("C21DBG") != "" {
		fmt.Fprintf(os.Stderr, "DBG req#%d %s fault=%s status=%d raw=%d decoded=%d CL=%d enc=%q\n", i, r.URL.Path, f.Kind, res.StatusCode, len(raw), len(decoded), res.ContentLength, enc)
	}
	return res, nil
}

func newServerFor(c c21Case) *vgirpc.HttpServer {
	srv := vgirpc.NewServer()
	lib.RegisterScripted(srv)
	h, err := vgirpc.NewHttpServerWithKey(srv, []byte("0123456789abcdef0123456789abcdef"))
	if err != nil {
		panic(err)
	}
	h.SetProducerBatchLimit(c.Limit)
	return h
}

// nextRefError returns the first server exception at or after index from.
func nextRefError(items []lib.ClientItem, from int) *lib.ClientItem {
	for i := from; i < len(items); i++ {
		if items[i].Kind == "error" {
			return &items[i]
		}
	}
	return nil
}

func rpcErr(err error) *vgirpc.RpcError {
	var re *vgirpc.RpcError
	if errors.As(err, &re) {
		return re
	}
	return nil
}

func runC21(c c21Case) (out lib.Outcome) {
	lib.ResetEvents()
	method := "s_prod"
	if c.Exchange {
		method = "s_exch"
	}
	out.Label("kind:" + map[bool]string{true: "exchange", false: "producer"}[c.Exchange])
	for _, tu := range c.Script.Turns {
		if tu.Act == "emit" && tu.Rows < 0 {
			out.Label("zero-row-batch:" + map[bool]string{true: "exchange", false: "producer"}[c.Exchange])
			break
		}
	}
	call := lib.CallSpec{Kind: "stream", Method: method, Stream: &c.Script, CancelAt: -1}
	for _, v := range c.Inputs {
		call.Inputs = append(call.Inputs, lib.InputSpec{Vals: []int64{v}})
	}
	// reference: my own client against an identical server
	ref := lib.RunHTTPStream(func(int) http.Handler { return newServerFor(c) }, call, nil, 100)
	if ref.Broken != "" {
		out.Violate("C21/harness-reference", "reference run broken: %s", ref.Broken)
		return
	}
	var refItems []lib.ClientItem
	for _, it := range ref.Items {
		if it.Kind != "log" {
			refItems = append(refItems, it)
		}
	}
	ft := &faultTransport{h: newServerFor(c), faults: append([]c21Fault{}, c.Faults...), maxDec: c.MaxDec}
	base, opts := "http://client.test", []vgirpc.HttpClientOption{vgirpc.WithClientResponseLimits(c.MaxDec, c.MaxDec)}
	if c.Real {
		// the client's real transport <-> TCP <-> front end applying the fault script <-> worker
		out.Label("transport:real")
		front := httptest.NewServer(ft)
		defer front.Close()
		base = front.URL
		if c.DefaultClient {
			out.Label("transport:real:default-client")
		} else {
			tr := &http.Transport{}
			defer tr.CloseIdleConnections()
			opts = append(opts, vgirpc.WithClientHTTPClient(&http.Client{Transport: tr}))
		}
	} else {
		opts = append(opts, vgirpc.WithClientHTTPClient(&http.Client{Transport: ft}))
	}
	// noReplay: no cursor value reaches the fault layer (i.e. leaves the client) in two /exchange requests — whoever
	// resends it, the client's own code or the HTTP transport underneath it
	noReplay := func() bool {
		ok := true
		seen := map[string]int{}
		for i, r := range ft.requests() {
			if strings.HasSuffix(r.Path, "/exchange") && r.Cursor != "" {
				if j, dup := seen[r.Cursor]; dup {
					out.Violate("C21/cursor-replayed", "requests %d and %d carry the same cursor (real wire: %v; fault on request %d: %s, on request %d: %s)", j, i, c.Real, j, ft.fault(j).Kind, i, ft.fault(i).Kind)
					ok = false
				}
				seen[r.Cursor] = i
			}
		}
		return ok
	}
	client, err := vgirpc.NewHttpClient(base, opts...)
	if err != nil {
		out.Violate("C21/harness-client", "%v", err)
		return
	}
	defer client.Close()
	ctx := context.Background()
	params := lib.ScriptBatch(c.Script.JSON())
	faultAt := ft.fault
	checkBatch := func(i int, b *vgirpc.ClientBatch) {
		if i >= len(refItems) || refItems[i].Kind != "data" {
			out.Violate("C21/extra-batch", "client returned data batch %d but the server's stream has %d items", i, len(refItems))
			return
		}
		if d := lib.BatchDiff(refItems[i].Rec, b.Batch); d != "" {
			out.Violate("C21/batch-differs", "data batch %d differs from what the server produced: %s", i, d)
		}
		for k := range b.Metadata {
			if k == lib.KStreamState || k == lib.KCallState {
				out.Violate("C21/token-in-metadata", "batch %d metadata exposes %s", i, k)
			}
		}
		for _, kv := range refItems[i].Meta {
			parts := strings.SplitN(kv, "=", 2)
			if b.Metadata[parts[0]] != parts[1] {
				out.Violate("C21/user-metadata-lost", "batch %d lost user metadata %s", i, kv)
			}
		}
	}
	anyFault := false
	if c.Exchange {
		stream, err := client.OpenExchange(ctx, method, params, vgirpc.ClientStreamSchema{Input: lib.InSchema, Output: lib.OutSchema})
		f0 := faultAt(0)
		if err != nil {
			if f0.Kind == "pass" {
				out.Violate("C21/open-failed", "OpenExchange failed without a fault: %v", err)
			}
			return
		}
		if mustFail[f0.Kind] && f0.Kind != "strip_cursor" || f0.Kind == "strip_cursor" {
			if mustFail[f0.Kind] {
				out.Violate(lib.Keyf("C21", "fault-not-detected", "init", f0.Kind), "OpenExchange succeeded although the init response was faulted (%s)", f0.Kind)
				return
			}
		}
		defer stream.Close()
		dead := false
		got := 0
		for i, v := range c.Inputs {
			before := ft.seen()
			f := faultAt(before)
			b, err := stream.Exchange(ctx, lib.Int64Batch(lib.InSchema, v))
			sent := ft.seen() - before
			if dead {
				if err == nil {
					out.Violate("C21/turn-after-dead-stream", "turn %d succeeded on a stream that had ended or become ambiguous", i)
					return
				}
				if sent != 0 {
					out.Violate("C21/request-after-dead-stream", "turn %d: the client sent %d request(s) on a dead stream", i, sent)
					return
				}
				continue
			}
			if sent != 1 {
				if noReplay() {
					out.Violate("C21/requests-per-turn", "turn %d sent %d requests", i, sent)
				}
				return
			}
			if f.Kind != "pass" {
				anyFault = true
				out.Label("fault:" + f.Kind)
				if i >= 1 {
					out.Label("fault-at-turn>=2")
				}
				if c.Real && (f.Kind == "err_after" || f.Kind == "err_before") {
					// the peer dropped the connection after receiving the request and before any response byte
					how := map[bool]string{true: "reused-conn", false: "fresh-conn"}[ft.requests()[before].Reused]
					out.Label("real:" + f.Kind + ":" + how)
					if f.Reset {
						out.Label("real:drop-by-reset")
					}
				}
			}
			if err != nil {
				dead = true
				if f.Kind == "pass" {
					// a genuine server error: must be typed
					if got < len(refItems) && refItems[got].Kind == "error" {
						re := rpcErr(err)
						if re == nil || re.Type != refItems[got].Err.Type || !strings.Contains(re.Message, "turn failed") {
							out.Violate("C21/server-error-not-typed", "server exception (%s) surfaced as %T %v", refItems[got].Err.Type, err, err)
						}
						out.Label("server-error")
					} else {
						out.Violate("C21/spurious-error", "turn %d failed without a fault or server error: %v", i, err)
					}
				}
				continue
			}
			// success
			if mustFail[f.Kind] {
				out.Violate(lib.Keyf("C21", "fault-not-detected", f.Kind), "turn %d succeeded although its response was faulted (%s)", i, f.Kind)
				b.Release()
				return
			}
			if f.Kind == "pass" {
				checkBatch(got, b)
			}
			got++
			b.Release()
		}
		// no cursor is ever sent twice
		noReplay()
	} else {
		stream, err := client.OpenProducer(ctx, method, params, vgirpc.ClientStreamSchema{Output: lib.OutSchema})
		f0 := faultAt(0)
		if err != nil {
			if f0.Kind == "pass" {
				// a server exception anywhere in the first response legitimately fails the open
				// (batches sharing a response with the exception may be dropped with it)
				if e := nextRefError(refItems, 0); e == nil {
					out.Violate("C21/open-failed", "OpenProducer failed without a fault: %v", err)
				} else if re := rpcErr(err); re == nil || re.Type != e.Err.Type {
					out.Violate("C21/server-error-not-typed", "server exception (%s) surfaced at open as %T %v", e.Err.Type, err, err)
				} else {
					out.Label("server-error")
				}
			}
			return
		}
		defer stream.Close()
		got := 0
		clean := f0.Kind == "pass"
		if f0.Kind != "pass" {
			anyFault = true
		}
		for got < 100 {
			before := ft.seen()
			b, ok, err := stream.Next(ctx)
			for j := before; j < ft.seen(); j++ {
				if fk := faultAt(j).Kind; fk != "pass" {
					clean = false
					anyFault = true
					out.Label("fault:" + fk)
					if mustFail[fk] && fk != "strip_cursor" && err == nil {
						out.Violate(lib.Keyf("C21", "fault-not-detected", "producer", fk), "Next succeeded although response %d was faulted (%s)", j, fk)
						return
					}
				}
			}
			if err != nil {
				if clean {
					if e := nextRefError(refItems, got); e != nil {
						re := rpcErr(err)
						if re == nil || re.Type != e.Err.Type {
							out.Violate("C21/server-error-not-typed", "server exception surfaced as %T %v", err, err)
						}
						out.Label("server-error")
					} else {
						out.Violate("C21/spurious-error", "Next failed without a fault or server error: %v", err)
					}
				}
				break
			}
			if !ok {
				if clean && got != len(refItems) {
					out.Violate("C21/stream-short", "client saw %d batches, the server produced %d items", got, len(refItems))
				}
				break
			}
			if clean {
				checkBatch(got, b)
			}
			got++
			b.Release()
		}
	}
	out.NonTrivial = anyFault
	return
}

var propC21 = lib.Prop[c21Case]{
	ID:    "C21",
	Level: "fault_enumeration",
	Rule: "producer and exchange histories of 1-8 turns (0-3 rows per batch, per-emit metadata, server-side turn errors) driven through vgirpc.HttpClient against a real HttpServer behind a generated RoundTripper fault script: per request one of pass, error before send, error after the server handled it, truncate at k, connection dropped mid-body at k or exactly between two IPC messages of an identity-coded body, flip a byte, status 4xx/5xx/3xx/1xx, unknown coding, lying coding, cursor stripped, schema drift, trailing bytes, body inflated past the client's cap. " +
		"A quarter of the cases run over the real wire instead: the client (its default http.Client, or an injected one with its own http.Transport) talks TCP to a front end that applies the same script, where 'error before/after' means the peer closes or resets the connection after receiving the request (before / after the worker handled it) without sending a response byte, on a reused keep-alive connection or — when the previous response said Connection: close — on a fresh one. " +
		"Oracle: un-faulted responses give exactly the reference batches (my own client against an identical server) with tokens removed and user metadata kept; server exceptions surface as *RpcError of the server's type; must-fail faults are errors; after any failed exchange turn every later turn errors without a request; no cursor value occurs in two /exchange requests as counted where the requests arrive (so a resend by the HTTP transport underneath the client counts as well). Non-trivial: at least one fault was exercised.",
	Gen:          genC21,
	Run:          runC21,
	Essential:    []string{"kind:exchange", "kind:producer", "zero-row-batch:producer", "zero-row-batch:exchange", "fault-at-turn>=2", "server-error", "fault:strip_cursor", "fault:err_after", "fault:oversize", "fault:cut_boundary",
		"transport:real", "transport:real:default-client", "real:err_after:reused-conn", "real:err_before:reused-conn", "real:drop-by-reset"},
	EssentialMin: 300,
	Assumptions:  []string{"a corrupted-but-parseable body (truncate/flip) may legitimately succeed: the client has no checksum", "the no-replay clause is asserted for exchange streams, as the statement words it"},
}

func TestC21(t *testing.T) { lib.Check(t, propC21) }

func TestMain(m *testing.M) { os.Exit(m.Run()) }
